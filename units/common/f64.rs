// ---------------------------------------------------------------- f64 as reals (R7, ASSUMED) --
// Every function below is a trusted stub: machine arithmetic is treated as mathematical (rounding ignored; operands
// finite and non-NaN). `f64r(x)` is the real number an f64 value denotes.
pub uninterp spec fn f64r(x: f64) -> real;
pub uninterp spec fn fmaxr() -> real;                  // f64::MAX as a real
pub uninterp spec fn r_sqrt(x: real) -> real;
pub uninterp spec fn r_ln(x: real) -> real;
pub uninterp spec fn r_ceil(x: real) -> real;
pub uninterp spec fn r_floor(x: real) -> int;           // the integer part: r_floor(x) <= x < r_floor(x) + 1
pub uninterp spec fn r_pow(x: real, y: real) -> real;
pub open spec fn r_clamp(x: real, lo: real, hi: real) -> real { if x < lo { lo } else if x > hi { hi } else { x } }
pub open spec fn r_min(a: real, b: real) -> real { if a <= b { a } else { b } }
pub open spec fn r_max(a: real, b: real) -> real { if a >= b { a } else { b } }
pub open spec fn r_abs(a: real) -> real { if a >= 0real { a } else { -a } }
#[verifier::external_body]
pub proof fn ax_reals()
    ensures
        fmaxr() >= 1real,
        forall|x: real, y: real| 0real <= x <= y ==> #[trigger] r_sqrt(x) <= #[trigger] r_sqrt(y),
        forall|x: real| x >= 0real ==> #[trigger] r_sqrt(x) >= 0real && r_sqrt(x) * r_sqrt(x) == x,
        forall|x: real, y: real| 0real < x <= y ==> #[trigger] r_ln(x) <= #[trigger] r_ln(y),
        r_ln(1real) == 0real,
        forall|x: real| #[trigger] r_ceil(x) >= x && r_ceil(x) < x + 1real,
        forall|x: real| (#[trigger] r_floor(x)) as real <= x && x < (r_floor(x) + 1) as real,
{}
#[verifier::external_body] pub fn f_const(n: i64, d: i64) -> (r: f64) requires d > 0 ensures f64r(r) == (n as real) / (d as real) { (n as f64) / (d as f64) }
#[verifier::external_body] pub fn f_maxval() -> (r: f64) ensures f64r(r) == fmaxr() { f64::MAX }
#[verifier::external_body] pub fn f_minval() -> (r: f64) ensures f64r(r) == -fmaxr() { f64::MIN }
#[verifier::external_body] pub fn f_add(a: f64, b: f64) -> (r: f64) ensures f64r(r) == f64r(a) + f64r(b) { a + b }
#[verifier::external_body] pub fn f_sub(a: f64, b: f64) -> (r: f64) ensures f64r(r) == f64r(a) - f64r(b) { a - b }
#[verifier::external_body] pub fn f_mul(a: f64, b: f64) -> (r: f64) ensures f64r(r) == f64r(a) * f64r(b) { a * b }
// IEEE division is total (x/0 = ±inf or NaN): no precondition, but the result is only specified for a non-zero divisor
#[verifier::external_body] pub fn f_div(a: f64, b: f64) -> (r: f64) ensures f64r(b) != 0real ==> f64r(r) == f64r(a) / f64r(b) { a / b }
#[verifier::external_body] pub fn f_neg(a: f64) -> (r: f64) ensures f64r(r) == -f64r(a) { -a }
#[verifier::external_body] pub fn f_lt(a: f64, b: f64) -> (r: bool) ensures r == (f64r(a) < f64r(b)) { a < b }
#[verifier::external_body] pub fn f_le(a: f64, b: f64) -> (r: bool) ensures r == (f64r(a) <= f64r(b)) { a <= b }
#[verifier::external_body] pub fn f_gt(a: f64, b: f64) -> (r: bool) ensures r == (f64r(a) > f64r(b)) { a > b }
#[verifier::external_body] pub fn f_ge(a: f64, b: f64) -> (r: bool) ensures r == (f64r(a) >= f64r(b)) { a >= b }
#[verifier::external_body] pub fn f_eq(a: f64, b: f64) -> (r: bool) ensures r == (f64r(a) == f64r(b)) { a == b }
#[verifier::external_body] pub fn f_ne(a: f64, b: f64) -> (r: bool) ensures r == (f64r(a) != f64r(b)) { a != b }
#[verifier::external_body] pub fn f_sqrt(a: f64) -> (r: f64) ensures f64r(r) == r_sqrt(f64r(a)) { a.sqrt() }
#[verifier::external_body] pub fn f_ln(a: f64) -> (r: f64) ensures f64r(r) == r_ln(f64r(a)) { a.ln() }
#[verifier::external_body] pub fn f_ceil(a: f64) -> (r: f64) ensures f64r(r) == r_ceil(f64r(a)) { a.ceil() }
#[verifier::external_body] pub fn f_floor(a: f64) -> (r: f64) ensures f64r(r) == r_floor(f64r(a)) as real { a.floor() }
#[verifier::external_body] pub fn f_abs(a: f64) -> (r: f64) ensures f64r(r) == r_abs(f64r(a)) { a.abs() }
#[verifier::external_body] pub fn f_powf(a: f64, b: f64) -> (r: f64) ensures f64r(r) == r_pow(f64r(a), f64r(b)) { a.powf(b) }
#[verifier::external_body] pub fn f_min(a: f64, b: f64) -> (r: f64) ensures f64r(r) == r_min(f64r(a), f64r(b)) { a.min(b) }
#[verifier::external_body] pub fn f_max(a: f64, b: f64) -> (r: f64) ensures f64r(r) == r_max(f64r(a), f64r(b)) { a.max(b) }
// std: clamp panics if !(lo <= hi)
#[verifier::external_body] pub fn f_clamp(a: f64, lo: f64, hi: f64) -> (r: f64) requires f64r(lo) <= f64r(hi) ensures f64r(r) == r_clamp(f64r(a), f64r(lo), f64r(hi)) { a.clamp(lo, hi) }
#[verifier::external_body] pub fn f_from_usize(a: usize) -> (r: f64) ensures f64r(r) == a as real { a as f64 }
#[verifier::external_body] pub fn f_from_i64(a: i64) -> (r: f64) ensures f64r(r) == a as real { a as f64 }
#[verifier::external_body] pub fn f_from_u64(a: u64) -> (r: f64) ensures f64r(r) == a as real { a as f64 }
#[verifier::external_body] pub fn qx_unreachable<T>() -> T requires false { unimplemented!() }
#[verifier::external_body] pub fn f_from_f64(a: f64) -> (r: f64) ensures r == a { a }
#[verifier::external_body] pub fn f_into(a: f64) -> (r: f64) ensures r == a { a }
// powi(x, 2) = x·x ; other exponents unspecified
#[verifier::external_body] pub fn f_powi(a: f64, n: i32) -> (r: f64) ensures n == 2 ==> f64r(r) == f64r(a) * f64r(a) { a.powi(n) }
