// ---------------------------------------------------------------- prelude (trusted / abstracted) --
// Strings are never reasoned about: only identity matters (R9).
#[derive(PartialEq, Eq)]
pub struct Str { pub id: u64 }
impl Str {
    fn as_str(&self) -> (r: &Str) ensures r == self { self }
}
impl vstd::std_specs::cmp::PartialEqSpecImpl for Str {
    open spec fn obeys_eq_spec() -> bool { true }
    open spec fn eq_spec(&self, other: &Str) -> bool { self.id == other.id }
}

struct SyntheticData { id: u64 }
struct DpParameters { id: u64 }
struct PrivacyUnitPath { id: u64 }
struct PrivacyUnit { paths: Vec<(Str, PrivacyUnitPath)>, hash_privacy_unit: bool }
impl Clone for SyntheticData { fn clone(&self) -> (r: Self) ensures r == *self { SyntheticData { id: self.id } } }
impl Clone for DpParameters { fn clone(&self) -> (r: Self) ensures r == *self { DpParameters { id: self.id } } }
impl Clone for PrivacyUnit {
    #[verifier::external_body]
    fn clone(&self) -> (r: Self) ensures r == *self { unimplemented!() }
}
impl PrivacyUnit {
    // the Deref<Target = Vec<(String, PrivacyUnitPath)>> impl of the real type
    fn qx_deref(&self) -> (r: &Vec<(Str, PrivacyUnitPath)>) ensures *r == self.paths { &self.paths }
}

struct Relation { name: Str }
impl Relation { fn name(&self) -> (r: &Str) ensures *r == self.name { &self.name } }
struct Table { name: Str }
impl Table { fn name(&self) -> (r: &Str) ensures *r == self.name { &self.name } }
struct Map { id: u64 }
struct Join { id: u64 }
struct Set { id: u64 }
struct Values { id: u64 }
struct Column { id: u64 }
struct AggregateColumn { aggregate: Aggregate, column: Column }
impl AggregateColumn {
    fn aggregate(&self) -> (r: &Aggregate) ensures *r == self.aggregate { &self.aggregate }
    fn column(&self) -> (r: &Column) ensures *r == self.column { &self.column }
}
struct GroupBy { id: u64 }
impl GroupBy {
    uninterp spec fn has(&self, c: Column) -> bool;
    #[verifier::external_body]
    fn contains(&self, c: &Column) -> (r: bool) ensures r == self.has(*c) { unimplemented!() }
}
struct Reduce { aggregate: Vec<AggregateColumn>, group_by: GroupBy }
impl Reduce {
    fn aggregate(&self) -> (r: &Vec<AggregateColumn>) ensures *r == self.aggregate { &self.aggregate }
    fn group_by(&self) -> (r: &GroupBy) ensures *r == self.group_by { &self.group_by }
}
// Hierarchy<Arc<Relation>> indexed by a name (Index<&str>): abstract total lookup
struct Hierarchy<T> { id: u64, t: Ghost<T> }
impl Hierarchy<Arc<Relation>> {
    uninterp spec fn lookup(&self, name: Str) -> Relation;
    #[verifier::external_body]
    fn qx_index(&self, name: &Str) -> (r: &Relation) ensures *r == self.lookup(*name) { unimplemented!() }
}
struct RelationWithRewritingRules<'a> { attributes: &'a Vec<RewritingRule> }
struct Arc<T> { v: T }

//@item src/expr/aggregate.rs :: enum Aggregate
//@item src/privacy_unit_tracking/mod.rs :: enum Strategy derive="PartialEq, Eq"
impl vstd::std_specs::cmp::PartialEqSpecImpl for Strategy {
    open spec fn obeys_eq_spec() -> bool { true }
    open spec fn eq_spec(&self, other: &Strategy) -> bool { *self == *other }
}
//@item src/rewriting/rewriting_rule.rs :: enum Property derive="PartialEq, Eq"
impl vstd::std_specs::cmp::PartialEqSpecImpl for Property {
    open spec fn obeys_eq_spec() -> bool { true }
    open spec fn eq_spec(&self, other: &Property) -> bool { *self == *other }
}
//@item src/rewriting/rewriting_rule.rs :: enum Parameters
//@item src/rewriting/rewriting_rule.rs :: struct RewritingRule

impl RewritingRule {
//@fn src/rewriting/rewriting_rule.rs :: impl RewritingRule :: new
    ensures r.inputs == inputs, r.output == output, r.parameters == parameters,
//@end
//@fn src/rewriting/rewriting_rule.rs :: impl RewritingRule :: inputs
    ensures r@ == self.inputs@,
//@end
//@fn src/rewriting/rewriting_rule.rs :: impl RewritingRule :: output
    ensures *r == self.output,
//@end
//@fn src/rewriting/rewriting_rule.rs :: impl RewritingRule :: parameters
    ensures *r == self.parameters,
//@end
}

//@item src/rewriting/rewriting_rule.rs :: struct RewritingRulesSetter

// ---------------------------------------------------------------- specification (from the statement) --
enum Kind { Table, Map, Reduce, Join, Set, Values }

spec fn arity(k: Kind) -> nat {
    match k { Kind::Table => 0, Kind::Values => 0, Kind::Map => 1, Kind::Reduce => 1, Kind::Join => 2, Kind::Set => 2 }
}
spec fn all_in(s: Seq<Property>, f: spec_fn(Property) -> bool) -> bool { forall|i: int| 0 <= i < s.len() ==> f(#[trigger] s[i]) }
spec fn has(s: Seq<Property>, p: Property) -> bool { exists|i: int| 0 <= i < s.len() && s[i] == p }

/// A rule never launders protected data: the heart of C02 at rule level.
spec fn sound(kind: Kind, protected: bool, r: RewritingRule) -> bool {
    &&& r.inputs@.len() == arity(kind)
    &&& (r.output == Property::Public ==> all_in(r.inputs@, |p: Property| p == Property::Public) && (kind == Kind::Table ==> !protected))
    &&& (r.output == Property::Published ==> r.inputs@.len() > 0 && all_in(r.inputs@, |p: Property| p == Property::Published || p == Property::DifferentiallyPrivate || p == Property::Public))
    &&& (r.output == Property::DifferentiallyPrivate ==> kind == Kind::Reduce && r.inputs@ =~= seq![Property::PrivacyUnitPreserving] && r.parameters is DifferentialPrivacy)
    &&& (r.output == Property::SyntheticData ==> all_in(r.inputs@, |p: Property| p == Property::SyntheticData) && r.parameters is SyntheticData)
    &&& (r.output == Property::PrivacyUnitPreserving ==> r.parameters is PrivacyUnit)
    &&& ((has(r.inputs@, Property::Private) || has(r.inputs@, Property::PrivacyUnitPreserving)) ==>
            (r.output == Property::Private || r.output == Property::PrivacyUnitPreserving || r.output == Property::DifferentiallyPrivate))
}

/// Shape of the rules that promise privacy-unit tracking (established by the setter, relied upon by the Rewriter's
/// match arms and by the selector's indexing): where the tracked input(s) sit.
spec fn pubish(p: Property) -> bool { p == Property::Published || p == Property::DifferentiallyPrivate || p == Property::Public }
spec fn pup_shape(kind: Kind, r: RewritingRule) -> bool {
    r.output == Property::PrivacyUnitPreserving ==> match kind {
        Kind::Table => r.inputs@.len() == 0,
        Kind::Values => false,
        Kind::Map => r.inputs@ =~= seq![Property::PrivacyUnitPreserving],
        Kind::Reduce => r.inputs@ =~= seq![Property::PrivacyUnitPreserving],
        Kind::Set => r.inputs@ =~= seq![Property::PrivacyUnitPreserving, Property::PrivacyUnitPreserving],
        Kind::Join => r.inputs@.len() == 2 && (
               (r.inputs@[0] == Property::PrivacyUnitPreserving && r.inputs@[1] == Property::PrivacyUnitPreserving)
            || (pubish(r.inputs@[0]) && r.inputs@[1] == Property::PrivacyUnitPreserving)
            || (r.inputs@[0] == Property::PrivacyUnitPreserving && pubish(r.inputs@[1]))),
    }
}

spec fn all_sound(kind: Kind, protected: bool, rs: Seq<RewritingRule>) -> bool {
    forall|k: int| 0 <= k < rs.len() ==> sound(kind, protected, #[trigger] rs[k]) && pup_shape(kind, rs[k])
}

/// `protected(table)`: some entry of the privacy unit names a relation with the table's name
spec fn protected(s: &RewritingRulesSetter, table: &Table) -> bool {
    exists|i: int| 0 <= i < s.privacy_unit.paths@.len()
        && table.name.id == s.relations.lookup(#[trigger] s.privacy_unit.paths@[i].0).name.id
}

