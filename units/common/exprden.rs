// ---------------------------------------------------------------- Expr-denotation prelude (ASSUMED) --
// An `Expr` is represented only by what it denotes on a row: a real number (booleans as 0/1). Each `Expr::<ctor>`
// stub carries one assumed equation ("Expr::divide(a,b) denotes [[a]]/[[b]]"); that the SQL engine evaluates the
// rendered expression the same way is part of the trusted base shared by C01/C03/C04/C05/C09.
pub struct Str { pub id: u64 }
// String equality is equality of the opaque name
impl vstd::std_specs::cmp::PartialEqSpecImpl for Str {
    open spec fn obeys_eq_spec() -> bool { true }
    open spec fn eq_spec(&self, other: &Str) -> bool { *self == *other }
}
impl PartialEq for Str { fn eq(&self, other: &Str) -> (r: bool) { self.id == other.id } }
impl Eq for Str {}
impl Str {
    pub fn as_str(&self) -> (r: &Str) ensures r == self { self }
    pub fn to_string(&self) -> (r: Str) ensures r == *self { Str { id: self.id } }
}
impl Clone for Str { fn clone(&self) -> (r: Self) ensures r == *self { Str { id: self.id } } }
pub type Row = spec_fn(Str) -> real;
pub uninterp spec fn null_in(row: Row, col: Str) -> bool;      // the column is NULL in that row
pub struct Expr { pub den: Ghost<spec_fn(Row) -> real> }
pub trait QxName: Sized { spec fn nm(self) -> Str; }
impl QxName for Str { open spec fn nm(self) -> Str { self } }
impl<'a> QxName for &'a Str { open spec fn nm(self) -> Str { *self } }
pub trait QxVal: Sized { spec fn rv(self) -> real; }
impl QxVal for f64 { open spec fn rv(self) -> real { f64r(self) } }
impl QxVal for bool { open spec fn rv(self) -> real { if self { 1real } else { 0real } } }
impl QxVal for i32 { open spec fn rv(self) -> real { self as real } }
impl QxVal for i64 { open spec fn rv(self) -> real { self as real } }
pub uninterp spec fn null_flag(e: Expr, row: Row) -> bool;
/// denotations of a column reference and of a constant (the same facts as the pointwise clauses of col / val, as function values)
pub open spec fn col_den(n: Str) -> spec_fn(Row) -> real { |row: Row| row(n) }
pub open spec fn const_den(v: real) -> spec_fn(Row) -> real { |row: Row| v }
impl Expr {
    pub open spec fn at(self, row: Row) -> real { (self.den@)(row) }
    #[verifier::external_body] pub fn col<N: QxName>(n: N) -> (r: Expr) ensures forall|row: Row| #[trigger] r.at(row) == row(n.nm()), forall|row: Row| #[trigger] null_flag(r, row) == null_in(row, n.nm()), r.den@ == col_den(n.nm()) { unimplemented!() }
    #[verifier::external_body] pub fn val<V: QxVal>(v: V) -> (r: Expr) ensures forall|row: Row| #[trigger] r.at(row) == v.rv(), r.den@ == const_den(v.rv()), forall|row: Row| !(#[trigger] null_flag(r, row)) { unimplemented!() }
    // Expr::divide guards the denominator: case(b >= EPSILON or b <= -EPSILON, a / b, 0)   (expr/mod.rs)
    #[verifier::external_body] pub fn divide(a: Expr, b: Expr) -> (r: Expr)
        ensures forall|row: Row| #[trigger] r.at(row) == (if b.at(row) >= r_epsilon() || b.at(row) <= -r_epsilon() { a.at(row) / b.at(row) } else { 0real }) { unimplemented!() }
    #[verifier::external_body] pub fn multiply(a: Expr, b: Expr) -> (r: Expr) ensures forall|row: Row| #[trigger] r.at(row) == a.at(row) * b.at(row), forall|row: Row| #[trigger] null_flag(r, row) == (null_flag(a, row) || null_flag(b, row)) { unimplemented!() }
    #[verifier::external_body] pub fn minus(a: Expr, b: Expr) -> (r: Expr) ensures forall|row: Row| #[trigger] r.at(row) == a.at(row) - b.at(row) { unimplemented!() }
    #[verifier::external_body] pub fn plus(a: Expr, b: Expr) -> (r: Expr) ensures forall|row: Row| #[trigger] r.at(row) == a.at(row) + b.at(row) { unimplemented!() }
    #[verifier::external_body] pub fn greatest(a: Expr, b: Expr) -> (r: Expr) ensures forall|row: Row| #[trigger] r.at(row) == r_max(a.at(row), b.at(row)) { unimplemented!() }
    #[verifier::external_body] pub fn least(a: Expr, b: Expr) -> (r: Expr) ensures forall|row: Row| #[trigger] r.at(row) == r_min(a.at(row), b.at(row)) { unimplemented!() }
    #[verifier::external_body] pub fn sqrt(a: Expr) -> (r: Expr) ensures forall|row: Row| #[trigger] r.at(row) == r_sqrt(a.at(row)) { unimplemented!() }
    #[verifier::external_body] pub fn abs(a: Expr) -> (r: Expr) ensures forall|row: Row| #[trigger] r.at(row) == r_abs(a.at(row)) { unimplemented!() }
    #[verifier::external_body] pub fn pow(a: Expr, b: Expr) -> (r: Expr) ensures forall|row: Row| #[trigger] r.at(row) == r_pow(a.at(row), b.at(row)) { unimplemented!() }
    #[verifier::external_body] pub fn cast_as_integer(a: Expr) -> (r: Expr) ensures forall|row: Row| #[trigger] r.at(row) == r_round(a.at(row)) { unimplemented!() }
    #[verifier::external_body] pub fn coalesce(a: Expr, b: Expr) -> (r: Expr) ensures forall|row: Row| #[trigger] r.at(row) == (if null_flag(a, row) { b.at(row) } else { a.at(row) }), forall|row: Row| #[trigger] null_flag(r, row) == (null_flag(a, row) && null_flag(b, row)) { unimplemented!() }
    #[verifier::external_body] pub fn is_null(a: Expr) -> (r: Expr) ensures forall|row: Row| #[trigger] r.at(row) == (if null_flag(a, row) { 1real } else { 0real }) { unimplemented!() }
    #[verifier::external_body] pub fn case(c: Expr, a: Expr, b: Expr) -> (r: Expr) ensures forall|row: Row| #[trigger] r.at(row) == (if c.at(row) != 0real { a.at(row) } else { b.at(row) }) { unimplemented!() }
    #[verifier::external_body] pub fn gt(a: Expr, b: Expr) -> (r: Expr) ensures forall|row: Row| #[trigger] r.at(row) == (if a.at(row) > b.at(row) { 1real } else { 0real }) { unimplemented!() }
    #[verifier::external_body] pub fn lt(a: Expr, b: Expr) -> (r: Expr) ensures forall|row: Row| #[trigger] r.at(row) == (if a.at(row) < b.at(row) { 1real } else { 0real }) { unimplemented!() }
    #[verifier::external_body] pub fn lt_eq(a: Expr, b: Expr) -> (r: Expr) ensures forall|row: Row| #[trigger] r.at(row) == (if a.at(row) <= b.at(row) { 1real } else { 0real }) { unimplemented!() }
    #[verifier::external_body] pub fn gt_eq(a: Expr, b: Expr) -> (r: Expr) ensures forall|row: Row| #[trigger] r.at(row) == (if a.at(row) >= b.at(row) { 1real } else { 0real }) { unimplemented!() }
    #[verifier::external_body] pub fn and(a: Expr, b: Expr) -> (r: Expr) ensures forall|row: Row| #[trigger] r.at(row) == (if a.at(row) != 0real && b.at(row) != 0real { 1real } else { 0real }) { unimplemented!() }
}
pub uninterp spec fn r_round(x: real) -> real;
pub uninterp spec fn r_epsilon() -> real;   // expr::EPSILON, a tiny positive constant
#[verifier::external_body] pub proof fn ax_epsilon() ensures 0real < r_epsilon() < 1real {}
#[verifier::external_body] pub proof fn ax_pow2() ensures forall|x: real| #[trigger] r_pow(x, 2real) == x * x {}
/// Map builder: the fields it was given, by name (a later field with the same name replaces the earlier one)
/// `cut`: the Map built carries a LIMIT or an OFFSET (its rows then depend on which other rows exist)
pub struct MapB { pub fields: Ghost<Map<Str, Expr>>, pub cut: Ghost<bool> }
pub trait QxWithArg: Sized { spec fn apply(self, f: Map<Str, Expr>) -> Map<Str, Expr>; spec fn cuts(self) -> bool; }
impl<N: QxName> QxWithArg for (N, Expr) { open spec fn apply(self, f: Map<Str, Expr>) -> Map<Str, Expr> { f.insert(self.0.nm(), self.1) } open spec fn cuts(self) -> bool { false } }
impl MapB {
    #[verifier::external_body] pub fn with<A: QxWithArg>(self, a: A) -> (r: Self) ensures r.fields@ == a.apply(self.fields@), r.cut@ == (self.cut@ || a.cuts()) { unimplemented!() }
}
pub open spec fn has_field(b: MapB, name: Str, f: spec_fn(Row) -> real) -> bool {
    b.fields@.contains_key(name) && forall|row: Row| #[trigger] b.fields@[name].at(row) == f(row)
}
