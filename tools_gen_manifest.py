#!/usr/bin/env python3
"""Regenerates MANIFEST.json from units/registry.json (claims) + the static texts below."""
import json, os
HERE = os.path.dirname(os.path.abspath(__file__))
reg = json.load(open(os.path.join(HERE, "units/registry.json")))
NA = {
 "C08": "equivalence of two SQL programs under an engine's semantics: no function contract can state it without a formal SQL semantics (that is modelling, another family); the parser/renderer code is outside both verifiers' language subsets (DESIGN.md §3 C08)",
 "C16": "quantifies over call histories of a process-global Mutex<HashMap> counter and over thread schedules: Kani has no threads, Verus would need the code rewritten with permission types; 'never reads COUNTER' is a call-graph fact over closures/trait objects, not a function contract (DESIGN.md §3 C16)",
 "C17": "oracle is acceptance by eight external SQL dialect parsers/engines and result agreement; string/AST construction over sqlparser types has no contract expressible here (DESIGN.md §3 C17)",
}
checks = []
for pid, p in sorted(reg["properties"].items()):
    checks.append({
        "property_id": pid,
        "quick_cmd": "./check %s --tier quick" % pid,
        "thorough_cmd": "./check %s --tier thorough" % pid,
        "evidence_file": "/verif/evidence/%s.json" % pid,
        "replay_cmd_template": "./check %s --replay {path}" % pid,
        "engine": p.get("engine", "verus+kani"),
        "level_claimed": {"category": "proof", "text": p["level_text"], "design_ref": p.get("design_ref", "DESIGN.md §3 " + pid)},
        "level_note": p["level_note"],
        "technique": p.get("technique", "contract-based deductive verification (Verus requires/ensures on functions extracted mechanically from /repo every run)"),
    })
na = [{"property_id": k, "reason": v} for k, v in sorted(NA.items())]
for pid, why in sorted(reg.get("pending", {}).items()):
    if pid not in reg["properties"]:
        na.append({"property_id": pid, "reason": why})
m = {
 "version": 1,
 "setup_cmd": "cd /verif/qx && CARGO_NET_OFFLINE=true cargo build --release --offline",
 "hooks": {"guard": "cfg(kani)", "enable": "cargo kani on a throw-away copy of /repo with /verif/units/*/kani harness modules appended under #[cfg(kani)]; Verus units read /repo source text (no build of /repo)",
           "baseline_off_cmd": "cd /repo && cargo nextest run --workspace --no-fail-fast --test-threads 8 --offline || cargo test --workspace --no-fail-fast --offline",
           "source_commits": [], "add_only": True},
 "engines": [
   {"name": "qx", "path": "/verif/qx", "serves_properties": sorted(reg["properties"].keys()), "kind_free_text": "mechanical extractor (syn): real functions/fragments of /repo -> Verus input, logged rewrite catalogue"},
   {"name": "verus", "path": "/usr/local/bin/verus", "serves_properties": sorted(reg["properties"].keys()), "kind_free_text": "deductive verifier (z3 back end), single-file mode"},
   {"name": "kani", "path": "/root/.cargo/bin/cargo-kani", "serves_properties": sorted(pid for pid, p in reg["properties"].items() if any(reg["units"][u]["engine"] == "kani" for u in p["units"])), "kind_free_text": "CBMC-based: loop-free full-domain harnesses over the real closures (complete), bounded harnesses labelled bounded"},
 ],
 "checks": checks,
 "not_applicable": na,
 "notes": "exit 2 from a check means undecided (lost anchor / unsupported construct / resource limit), never a violation. See DESIGN.md.",
}
json.dump(m, open(os.path.join(HERE, "MANIFEST.json"), "w"), indent=1)
print("MANIFEST.json: %d checks, %d not_applicable" % (len(checks), len(na)))
