#!/bin/bash
# Regenerates every evidence file from /repo (run before committing). Verus-only checks run in parallel; Kani ones serially.
cd /verif
ids=$(python3 -c "import json;print(' '.join(sorted(json.load(open('units/registry.json'))['properties'])))")
rc=0
for id in $ids; do
  ./check $id --tier ${1:-quick} > .work/run_$id.log 2>&1; c=$?
  tail -2 .work/run_$id.log | sed "s/^/[$id rc=$c] /"
  [ $c -ne 0 ] && rc=1
done
python3-vt - <<'PY'
import json, jsonschema, glob
sch = json.load(open('/root/.vp/EVIDENCE.schema.json'))
m = json.load(open('/verif/MANIFEST.json'))
jsonschema.validate(m, json.load(open('/root/.vp/MANIFEST.schema.json')))
for c in m['checks']:
    e = json.load(open(c['evidence_file']))
    jsonschema.validate(e, sch)
    cov = e['coverage']
    assert cov['obligations'] == cov['discharged'], (c['property_id'], cov['obligations'], cov['discharged'])
print('manifest + %d evidence files valid, discharged == obligations everywhere' % len(m['checks']))
PY
exit $rc
