import os, json, subprocess, time, re
import common

PROOF_FAIL = [
    "postcondition not satisfied", "assertion failed", "precondition not satisfied", "invariant not satisfied",
    "possible arithmetic underflow/overflow", "possible division by zero", "decreases not satisfied",
    "could not prove termination", "possible bit shift underflow/overflow", "unreachable", "loop invariant",
    "not all errors may have been reported",
]
RESOURCE = ["Resource limit", "rlimit", "timed out", "timeout"]


def item_at(report, gen_lines, line):
    for it in report["items"]:
        a, b = it["gen_lines"]
        if a <= line <= b:
            nm = it.get("as") or it["name"]
            return "%s::%s%s" % (it.get("impl", "-"), nm, (" [" + it["fragment"] + "]") if it.get("fragment") else ""), it
    # template-owned function: nearest preceding `fn name`
    for k in range(line - 1, -1, -1):
        m = re.search(r"\bfn\s+([A-Za-z0-9_]+)", gen_lines[k])
        if m:
            return "template::" + m.group(1), None
    return "?", None


def tag_at(gen_lines, line, col):
    """obligation tag for the clause starting at (line, col): a /*@ob name*/ on the same line before col,
    else the nearest tag on preceding lines that are continuation lines of the same clause list."""
    l = gen_lines[line - 1]
    tags = [(m.start(), m.group(1)) for m in re.finditer(r"/\*@ob\s+([^*]+?)\s*\*/", l)]
    best = None
    for pos, t in tags:
        if pos < col:
            best = t
    return best


def item_tags(gen_lines, line):
    """tags of the contract of the function enclosing `line` (for failures inside a body: loop invariant, call precondition)"""
    k = line - 1
    while k >= 0 and not re.match(r"\s*(pub\s+)?(proof\s+|exec\s+)?fn\s", gen_lines[k]):
        k -= 1
    tags = []
    j = max(k, 0)
    while j < len(gen_lines) and j < line:
        tags += re.findall(r"/\*@ob\s+([^*]+?)\s*\*/", gen_lines[j])
        if gen_lines[j].startswith("{") or gen_lines[j].rstrip().endswith("{") and j > k:
            break
        j += 1
    return tags


def run(ctx, uname, u):
    t0 = time.time()
    wd = os.path.join(ctx.work, uname)
    os.makedirs(wd, exist_ok=True)
    gen = os.path.join(wd, uname + ".rs")
    rep = os.path.join(wd, uname + ".qx.json")
    res = {"unit": uname, "engine": "verus", "status": "ok", "obligations": 0, "discharged": 0, "failures": [],
           "functions": [], "trusted": [], "samples": [], "back_end": "verus 0.2026.09.13 / z3"}
    p = subprocess.run([ctx.qx(), ctx.repo, os.path.join(ctx.here, u["template"]), gen, rep], capture_output=True, text=True)
    if p.returncode != 0:
        res["status"] = "undecided"
        res["undecided_reason"] = "extraction: " + p.stderr.strip().replace("\n", " | ")[:600]
        return res
    report = json.load(open(rep))
    text = open(gen).read()
    gen_lines = text.split("\n")
    rlimit = u.get("rlimit", 10)
    cmd = ["verus", gen, "--output-json", "--error-format=json", "--time", "--rlimit", str(rlimit * (2 if ctx.tier == "thorough" else 1)),
           "--multiple-errors", "5"]
    if ctx.tier == "thorough":
        cmd += ["--smt-option", "smt.random_seed=%d" % (ctx.seed % 1000)]
    res["checker_cmd"] = "qx %s -> %s ; %s" % (u["template"], os.path.relpath(gen, ctx.here), " ".join(["verus", os.path.relpath(gen, ctx.here)] + cmd[2:]))
    try:
        p = subprocess.run(cmd, capture_output=True, text=True, cwd=wd, timeout=u.get("timeout", 600))
    except subprocess.TimeoutExpired:
        res["status"] = "undecided"; res["undecided_reason"] = "verus timeout"; return res
    # stdout: the --output-json object; stderr: diagnostics as JSON lines
    out = p.stdout
    summary = None
    try:
        summary = json.loads(out[out.index("{"):])
    except Exception:
        pass
    diags = []
    for l in (p.stderr + "\n" + out).split("\n"):
        l = l.strip()
        if l.startswith('{"$message_type"'):
            try:
                diags.append(json.loads(l))
            except Exception:
                pass
    if summary is None or "verification-results" not in summary:
        res["status"] = "undecided"
        res["undecided_reason"] = "verus produced no result: " + (p.stderr[-500:])
        return res
    vr = summary["verification-results"]
    canary_expected = set(re.findall(r"\bproof fn (canary_[A-Za-z0-9_]+)", text))
    canary_failed = set()
    hard_errors = []
    failures = []
    for d in diags:
        if d.get("level") != "error":
            continue
        msg = d.get("message", "")
        if msg.startswith("aborting due to"):
            continue
        prim = [s for s in d.get("spans", []) if s.get("is_primary")]
        sp = prim[0] if prim else (d.get("spans") or [{}])[0]
        line, col = sp.get("line_start", 0), sp.get("column_start", 0)
        item, it = item_at(report, gen_lines, line) if line else ("?", None)
        if any(k in msg for k in RESOURCE):
            hard_errors.append("resource limit in %s: %s" % (item, msg))
            continue
        if any(msg.startswith(k) or k in msg for k in PROOF_FAIL):
            if item.startswith("template::canary_"):
                canary_failed.add(item.split("::")[1])
                continue
            tag = tag_at(gen_lines, line, col) if msg.startswith("postcondition") else None
            props = None
            if tag and ":" in tag:
                props = tag.split(":")[0].split(",")
            elif u.get("untagged_to"):
                props = u["untagged_to"]
            obl = tag or ("%s#%s" % (item, re.sub(r"\s+", "-", msg)))
            search = (u.get("search") or {}).get(tag) if tag else None
            if search is None:
                search = (u.get("search") or {}).get("*")
            serves = [] if tag else item_tags(gen_lines, line)
            failures.append({"obligation": obl, "props": props, "message": msg, "item": item, "serves": serves,
                             "detail": d.get("rendered", "")[:3000], "search": search,
                             "src": ({"file": it["file"], "lines": it["src_lines"]} if it else None)})
        else:
            hard_errors.append("%s (%s)" % (msg, item))
    if vr.get("encountered-vir-error") or hard_errors:
        res["status"] = "undecided"
        res["undecided_reason"] = "verus could not process the unit: " + " | ".join(hard_errors[:5])[:800]
        return res
    missing = canary_expected - canary_failed
    if missing:
        res["status"] = "undecided"
        res["undecided_reason"] = "vacuity canary verified (contradictory precondition?): " + ",".join(sorted(missing))
        return res
    verified, errors = vr.get("verified", 0), vr.get("errors", 0)
    failed_items = set(f["item"] for f in failures)
    res["obligations"] = verified + len(failed_items)
    res["discharged"] = verified
    res["canaries"] = len(canary_expected)
    if errors != len(failed_items) + len(canary_failed):
        # error count and attributed failures disagree: be conservative
        if errors > len(failed_items) + len(canary_failed) and not failures:
            res["status"] = "undecided"; res["undecided_reason"] = "unattributed verus errors"; return res
    if res["obligations"] < u.get("min_obligations", 1):
        res["status"] = "undecided"
        res["undecided_reason"] = "obligation count %d below recorded minimum %d" % (res["obligations"], u.get("min_obligations", 1))
        return res
    res["obl_list"] = [{"id": "%s#fn%d" % (uname, k), "props": None, "ok": True} for k in range(verified)]
    by_item = {}
    for f in failures:
        by_item.setdefault(f["item"], []).append(f)
    for item, fs in by_item.items():
        props = None if any(f["props"] is None for f in fs) else sorted(set(p for f in fs for p in f["props"]))
        res["obl_list"].append({"id": "%s:%s" % (uname, item), "props": props, "ok": False})
    # dedupe failures by obligation
    seen = {}
    for f in failures:
        seen.setdefault(f["obligation"], f)
    res["failures"] = list(seen.values())
    for it in report["items"]:
        if it["kind"] in ("fn", "fragment"):
            res["functions"].append({"file": it["file"], "item": "%s::%s%s" % (it.get("impl"), it["name"], (" [" + it["fragment"] + "]") if it.get("fragment") else ""),
                                     "lines": it["src_lines"], "sha256": it["sha256"], "rewrites": it["rewrites"], "engine": "verus"})
    rewrites = sorted(set(rw for it in report["items"] for rw in it["rewrites"]))
    res["trusted"] = common.scan_trusted(text, uname) + ["%s: extraction rewrite %s" % (uname, rw) for rw in rewrites] + u.get("trusted", [])
    tags = re.findall(r"/\*@ob\s+([^*]+?)\s*\*/", text)
    res["tagged_obligations"] = tags
    # samples: a few tagged clauses written out
    for n, l in enumerate(gen_lines):
        if "/*@ob" in l and len(res["samples"]) < u.get("n_samples", 4):
            res["samples"].append({"unit": uname, "obligation": l.strip()[:400]})
    tm = summary.get("times-ms", {})
    res["smt_ms"] = (((tm.get("verification") or {}).get("smt") or {}).get("total"))
    res["time_s"] = round(time.time() - t0, 2)
    return res
