import os, json, subprocess, time, re, shutil, struct
import common

PRIMS = {"i64": 8, "u64": 8, "f64": 8, "i32": 4, "u32": 4, "f32": 4, "bool": 1, "u8": 1, "i8": 1, "usize": 8, "isize": 8, "u16": 2, "i16": 2}


def ensure_copy(ctx):
    if ctx.kani_copy:
        return ctx.kani_copy
    dst = "/var/tmp/qrlew-verif-kani/%s" % ctx.pid
    shutil.rmtree(dst, ignore_errors=True)
    os.makedirs(dst, exist_ok=True)
    subprocess.run(["rsync", "-a", "--exclude", "target", "--exclude", ".git", ctx.repo.rstrip("/") + "/", dst + "/"], check=True)
    ctx.kani_copy = dst
    return dst


def split_params(s):
    out, depth, cur = [], 0, ""
    for ch in s:
        if ch in "([<":
            depth += 1
        elif ch in ")]>":
            depth -= 1
        if ch == "," and depth == 0:
            out.append(cur); cur = ""
        else:
            cur += ch
    if cur.strip():
        out.append(cur)
    res = []
    for p in out:
        n, t = p.split(":", 1)
        res.append((n.strip().replace("mut ", ""), t.strip()))
    return res


def parse_obs(text):
    """//@ob <tag> k=v ... followed by `pub fn ob_name(params) -> bool`"""
    obs = []
    lines = text.split("\n")
    for i, l in enumerate(lines):
        m = re.match(r"\s*//@ob\s+(\S+)(.*)$", l)
        if not m:
            continue
        tag, rest = m.group(1), m.group(2)
        kv = dict(re.findall(r"(\w+)=(\S+)", rest))
        sig = None
        for k in range(i + 1, min(i + 4, len(lines))):
            sm = re.search(r"fn\s+(ob_[A-Za-z0-9_]+)\s*\((.*?)\)\s*->\s*bool", lines[k])
            if sm:
                sig = sm; break
        if not sig:
            raise ValueError("no ob_ function after //@ob " + tag)
        obs.append({"tag": tag, "fn": sig.group(1), "params": split_params(sig.group(2)), "kv": kv})
    return obs


def gen_harness(ob):
    lets, args = [], []
    for n, t in ob["params"]:
        if t.startswith("&"):
            lets.append("let %s: %s = kani::any();" % (n, t[1:].strip()))
            args.append("&" + n)
        else:
            lets.append("let %s: %s = kani::any();" % (n, t))
            args.append(n)
    pre = ""
    if ob["kv"].get("pre"):
        pre = "kani::assume(%s(%s));" % (ob["kv"]["pre"], ", ".join(args))
    unwind = "#[kani::unwind(%s)] " % ob["kv"]["unwind"] if ob["kv"].get("unwind") else ""
    if ob["kv"].get("solver"):
        unwind += "#[kani::solver(%s)] " % ob["kv"]["solver"]
    return ("#[cfg(kani)] #[kani::proof] %sfn h_%s() { %s %s kani::cover!(true, \"qx-reach\"); assert!(%s(%s), \"qx-ob\"); }"
            % (unwind, ob["fn"], " ".join(lets), pre, ob["fn"], ", ".join(args)))


def decode(ty, bs):
    ty = ty.lstrip("&").strip()
    b = bytes(bs)
    if ty == "bool":
        return bool(b[0])
    if ty == "f64":
        return {"f64_bits": "0x%016x" % struct.unpack("<Q", b)[0], "approx": repr(struct.unpack("<d", b)[0])}
    if ty == "f32":
        return {"f32_bits": "0x%08x" % struct.unpack("<I", b)[0]}
    if ty in ("i64", "isize"):
        return struct.unpack("<q", b)[0]
    if ty in ("u64", "usize"):
        return struct.unpack("<Q", b)[0]
    if ty == "i32":
        return struct.unpack("<i", b)[0]
    if ty == "u32":
        return struct.unpack("<I", b)[0]
    if ty in ("u8",):
        return b[0]
    if ty in ("i8",):
        return struct.unpack("<b", b)[0]
    if ty == "u16":
        return struct.unpack("<H", b)[0]
    if ty == "i16":
        return struct.unpack("<h", b)[0]
    return list(b)


def rust_lit(ty, v):
    ty = ty.lstrip("&").strip()
    if ty == "bool":
        return "true" if v else "false"
    if ty == "f64":
        return "f64::from_bits(%su64)" % v["f64_bits"]
    if ty == "f32":
        return "f32::from_bits(%su32)" % v["f32_bits"]
    return "(%d as %s)" % (v, ty) if ty not in ("i64",) else ("(%di128 as i64)" % v)


def flat_types(params):
    """expand [T; N] parameters into N scalars (kani::any for arrays draws element by element)"""
    out = []
    for n, t in params:
        t0 = t.lstrip("&").strip()
        m = re.match(r"\[\s*(\w+)\s*;\s*(\d+)\s*\]$", t0)
        if m:
            out.append((n, t0, [m.group(1)] * int(m.group(2))))
        else:
            out.append((n, t0, None))
    return out


def parse_playback(out, ob):
    """concrete values of the failing assertion (or panic) from --concrete-playback=print"""
    blocks = re.findall(r"```\n(.*?)```", out, re.S)
    best, cover_only = None, None
    for b in blocks:
        if ob.get("fn") and not re.search(r"for harness `[^`]*\bh_%s`" % re.escape(ob["fn"]), b):
            continue  # --harness matches by substring: keep only this harness's own playback
        if "Check for `cover`" in b:
            # Kani prints a single test when the trace that reaches the cover also fails the assertion: keep it as a
            # candidate (the native replay decides whether it really violates the obligation)
            cover_only = cover_only or b
            continue
        best = b
        break
    from_cover = False
    if best is None:
        if cover_only is None:
            return None
        best, from_cover = cover_only, True
    vecs = re.findall(r"vec!\[([0-9,\s]*)\],", best)
    vals = [[int(x) for x in v.replace(" ", "").split(",") if x != ""] for v in vecs]
    res, k = {}, 0
    try:
        for n, t, arr in flat_types(ob["params"]):
            if arr:
                res[n] = []
                for et in arr:
                    res[n].append(decode(et, vals[k])); k += 1
            else:
                res[n] = decode(t, vals[k]); k += 1
    except Exception:
        return None
    if from_cover:
        res["__from_cover__"] = True
    return res


def native_replay(ctx, wd, module_text, ob, cex):
    """Run the extracted real kernel natively on the counterexample (debug profile semantics)."""
    args = []
    for n, t, arr in flat_types(ob["params"]):
        if arr:
            lit = "[" + ", ".join(rust_lit(et, v) for et, v in zip(arr, cex[n])) + "]"
        else:
            lit = rust_lit(t, cex[n])
        args.append(("&" if dict(ob["params"])[n].startswith("&") else "") + lit)
    pre = ""
    if ob["kv"].get("pre"):
        pre = "if !%s(%s) { println!(\"QX-REPLAY precondition-false\"); return; }" % (ob["kv"]["pre"], ", ".join(args))
    main = """
fn main() {
    %s
    let r = ::std::panic::catch_unwind(|| %s(%s));
    match r { Ok(true) => println!("QX-REPLAY holds"), Ok(false) => println!("QX-REPLAY violated"), Err(_) => println!("QX-REPLAY panicked") }
}
""" % (pre, ob["fn"], ", ".join(args))
    src = os.path.join(wd, "replay_%s.rs" % ob["fn"])
    open(src, "w").write("#![allow(warnings)]\n" + module_text + main)
    exe = os.path.join(wd, "replay_%s.bin" % ob["fn"])
    p = subprocess.run(["rustc", "--edition", "2021", "-C", "overflow-checks=on", "-C", "debug-assertions=on", "-o", exe, src],
                       capture_output=True, text=True)
    if p.returncode != 0:
        return None, "replay build failed: " + p.stderr[-400:]
    p = subprocess.run([exe], capture_output=True, text=True, timeout=60)
    m = re.search(r"QX-REPLAY (\S+)", p.stdout)
    return (m.group(1) if m else None), (p.stdout + p.stderr)[-600:]


def kani_cmd(harnesses, extra, jobs, harness_timeout=None):
    cmd = ["cargo", "kani", "--output-format", "terse", "-Z", "function-contracts", "-Z", "stubbing"]
    if harness_timeout:
        cmd += ["-Z", "unstable-options", "--harness-timeout", str(int(harness_timeout))]
    if jobs > 1:
        cmd += ["-j", str(jobs)]
    for h in harnesses:
        cmd += ["--harness", h]
    return cmd + extra


def parse_results(out):
    """per-harness result blocks of `--output-format terse` (with or without -j)"""
    res = {}
    cur_by_thread = {}
    cur = None
    lines = out.split("\n")
    block = {}
    for l in lines:
        m = re.match(r"(?:Thread (\d+): )?Checking harness (\S+?)\.\.\.", l)
        if m:
            th = m.group(1) or "0"
            name = m.group(2).split("::")[-1]
            cur_by_thread[th] = name
            res[name] = {"status": None, "failed_checks": [], "cover": None, "time": None, "raw": [], "timed_out": False}
            cur = name if m.group(1) is None else cur
            continue
        m = re.match(r"Thread (\d+):\s*$", l)
        if m:
            cur = cur_by_thread.get(m.group(1))
            continue
        if cur is None or cur not in res:
            continue
        r = res[cur]
        r["raw"].append(l)
        if l.startswith("VERIFICATION:- "):
            r["status"] = l.split(":- ")[1].strip()
        elif "CBMC timed out" in l:
            r["timed_out"] = True
        elif l.startswith("Failed Checks:"):
            r["failed_checks"].append(l[len("Failed Checks:"):].strip())
        elif "cover properties satisfied" in l:
            m2 = re.search(r"(\d+) of (\d+) cover", l)
            if m2:
                r["cover"] = (int(m2.group(1)), int(m2.group(2)))
        elif l.startswith("Verification Time:"):
            try:
                r["time"] = float(l.split(":")[1].strip().rstrip("s"))
            except Exception:
                pass
    return res


def run(ctx, uname, u):
    t0 = time.time()
    wd = os.path.join(ctx.work, uname)
    os.makedirs(wd, exist_ok=True)
    res = {"unit": uname, "engine": "kani", "status": "ok", "obligations": 0, "discharged": 0, "failures": [],
           "functions": [], "trusted": [], "samples": [], "bounded": [], "back_end": "kani 0.68.0 / cbmc 6.11 (cadical)"}
    gen = os.path.join(wd, uname + ".rs")
    rep = os.path.join(wd, uname + ".qx.json")
    p = subprocess.run([ctx.qx(), ctx.repo, os.path.join(ctx.here, u["template"]), gen, rep], capture_output=True, text=True)
    if p.returncode != 0:
        res["status"] = "undecided"
        res["undecided_reason"] = "extraction: " + p.stderr.strip().replace("\n", " | ")[:600]
        return res
    report = json.load(open(rep))
    text = open(gen).read()
    try:
        obs = parse_obs(text)
    except ValueError as e:
        res["status"] = "undecided"; res["undecided_reason"] = str(e); return res
    obs = [o for o in obs if not (ctx.tier == "quick" and o["kv"].get("tier") == "thorough")]
    module_text = text
    harness_text = "\n".join(gen_harness(o) for o in obs)
    copy = ensure_copy(ctx)
    modname = "qx_verif_" + uname
    if u.get("append_to"):
        tgt = os.path.join(copy, u["append_to"])
        open(tgt, "a").write("\n#[cfg(kani)]\nmod %s {\n    use super::*;\n%s\n%s\n}\n" % (modname, text, harness_text))
    else:
        open(os.path.join(copy, "src", modname + ".rs"), "w").write("#![allow(warnings)]\n" + text + "\n" + harness_text + "\n")
        open(os.path.join(copy, "src", "lib.rs"), "a").write("\n#[cfg(kani)]\nmod %s;\n" % modname)
    env = dict(os.environ, CARGO_NET_OFFLINE="true", CARGO_TARGET_DIR=os.path.join(ctx.here, ".work", "kani-target"))
    names = ["h_" + o["fn"] for o in obs]
    jobs = int(u.get("jobs", 8))
    timeout = int(u.get("timeout_thorough" if ctx.tier == "thorough" else "timeout", 1800))
    htimeout = int(u.get("harness_timeout_thorough" if ctx.tier == "thorough" else "harness_timeout", 1200 if ctx.tier == "thorough" else 240))
    cmd = kani_cmd(names, u.get("kani_args", []), jobs, htimeout)
    res["checker_cmd"] = "qx %s -> %s (installed under cfg(kani) in a throw-away copy of /repo) ; CARGO_NET_OFFLINE=true %s" % (
        u["template"], os.path.relpath(gen, ctx.here), " ".join(cmd[:8]) + " --harness <%d harnesses>" % len(names))
    try:
        p = subprocess.run(cmd, cwd=copy, env=env, capture_output=True, text=True, timeout=timeout)
    except subprocess.TimeoutExpired:
        res["status"] = "undecided"; res["undecided_reason"] = "cargo kani timeout (%ds)" % timeout; return res
    out = p.stdout + "\n" + p.stderr
    open(os.path.join(wd, "kani.log"), "w").write(re.sub(r"warning: linker stdout:.*\n", "", out))
    results = parse_results(out)
    if not results:
        res["status"] = "undecided"
        errs = [l for l in out.split("\n") if l.startswith("error")]
        res["undecided_reason"] = "cargo kani produced no harness result: " + " | ".join(errs[:4])[:600]
        return res
    for o in obs:
        h = "h_" + o["fn"]
        r = results.get(h)
        kind = o["kv"].get("kind", "complete")
        props = o["tag"].split(":")[0].split(",") if ":" in o["tag"] else None
        if r is None or r["status"] is None or r.get("timed_out"):
            res["status"] = "undecided"
            res["undecided_reason"] = "no verdict for harness %s (solver time limit %ds or crash)" % (h, htimeout)
            continue
        if r["cover"] is not None and r["cover"][0] < r["cover"][1]:
            res["status"] = "undecided"
            res["undecided_reason"] = "harness %s: precondition unreachable (vacuous)" % h
            continue
        entry = {"obligation": o["tag"], "harness": h, "kind": kind, "cbmc_s": r["time"]}
        if kind == "bounded":
            entry["bound"] = "unwind=%s" % o["kv"].get("unwind")
            res["bounded"].append(entry)
        else:
            res["obligations"] += 1
        if kind != "bounded":
            res.setdefault("obl_list", []).append({"id": o["tag"], "props": props, "ok": r["status"] == "SUCCESSFUL"})
        if r["status"] == "SUCCESSFUL":
            if kind != "bounded":
                res["discharged"] += 1
            if len(res["samples"]) < 4:
                res["samples"].append({"unit": uname, "obligation": o["tag"], "harness": "%s(%s)" % (o["fn"], ", ".join("%s: %s" % p_ for p_ in o["params"])), "domain": "full machine domain via kani::any" if kind == "complete" else entry.get("bound")})
            continue
        # FAILED: counterexample + native replay on the extracted real kernel
        cex, replayed, detail = None, False, "\n".join(r["raw"][-25:])
        try:
            cmd2 = kani_cmd([h], u.get("kani_args", []) + ["-Z", "concrete-playback", "--concrete-playback=print"], 1, htimeout)
            p2 = subprocess.run(cmd2, cwd=copy, env=env, capture_output=True, text=True, timeout=timeout)
            cex = parse_playback(p2.stdout + p2.stderr, o)
        except Exception as e:
            detail += "\n(playback failed: %s)" % e
        from_cover = bool(cex.pop("__from_cover__", False)) if cex is not None else False
        if cex is not None and not u.get("append_to"):
            verdict, log = native_replay(ctx, wd, module_text, o, cex)
            if from_cover and verdict == "holds":
                # the only trace printed was the one for the reachability cover and it does not violate the obligation
                cex, verdict = None, None
                detail += "\n(no playback for the failing assertion was printed)"
                res["failures"].append({"obligation": o["tag"], "props": props, "message": "; ".join(r["failed_checks"]) or "verification failed",
                                        "item": o["fn"], "detail": detail[-3000:], "counterexample": None, "replayed": False,
                                        "replay": {"kind": "kernel", "unit": uname, "fn": o["fn"]}})
                continue
            if verdict is None:
                res["status"] = "undecided"
                res["undecided_reason"] = "native replay for %s could not be built/run: %s" % (o["tag"], log[-300:])
                continue
            replayed = verdict in ("violated", "panicked")
            detail += "\nnative replay of the extracted kernel on the counterexample: %s" % verdict
        elif cex is not None:
            replayed = None  # needs the crate: replay through the replay crate if configured
        res["failures"].append({"obligation": o["tag"], "props": props, "message": "; ".join(r["failed_checks"]) or "verification failed",
                                "item": o["fn"], "detail": detail[-3000:], "counterexample": cex, "replayed": replayed,
                                "replay": {"kind": "kernel", "unit": uname, "fn": o["fn"]} if not u.get("append_to") else u.get("replay")})
    for it in report["items"]:
        if it["kind"] in ("fn", "fragment"):
            res["functions"].append({"file": it["file"], "item": "%s::%s%s" % (it.get("impl"), it["name"], (" [" + it["fragment"] + "]") if it.get("fragment") else ""),
                                     "lines": it["src_lines"], "sha256": it["sha256"], "rewrites": it["rewrites"], "engine": "kani"})
    rewrites = sorted(set(rw for it in report["items"] for rw in it["rewrites"]))
    res["trusted"] = ["%s: extraction rewrite %s" % (uname, rw) for rw in rewrites] + u.get("trusted", [])
    res["time_s"] = round(time.time() - t0, 2)
    return res
