def run(ctx, uname, u):
    raise SystemExit("kani engine not implemented yet")
