import os, json, subprocess, time, shutil, re, hashlib

QX = None


class Ctx:
    def __init__(self, here, repo, pid, tier, seed, keep=False):
        self.here, self.repo, self.pid, self.tier, self.seed, self.keep = here, repo, pid, tier, seed, keep
        self.work = os.path.join(here, ".work", pid)
        shutil.rmtree(self.work, ignore_errors=True)
        os.makedirs(self.work, exist_ok=True)
        self.kani_copy = None
        self.t0 = time.time()
        self.known = json.load(open(os.path.join(here, "known_findings.json")))

    def qx(self):
        p = os.path.join(self.here, "qx", "target", "release", "qx")
        if not os.path.exists(p):
            env = dict(os.environ, CARGO_NET_OFFLINE="true")
            subprocess.run(["cargo", "build", "--release", "--offline"], cwd=os.path.join(self.here, "qx"), env=env,
                           stdout=subprocess.DEVNULL, stderr=subprocess.DEVNULL)
        return p

    def cleanup(self):
        if self.kani_copy and not self.keep:
            shutil.rmtree(self.kani_copy, ignore_errors=True)


def sha256(s):
    return hashlib.sha256(s.encode()).hexdigest()


def scan_trusted(text, label):
    """mechanical scan for every assumption-introducing construct in a generated Verus file"""
    out = []
    pats = [r"external_body", r"\bassume\s*\(", r"\badmit\s*\(", r"assume_specification", r"\buninterp\b", r"\baxiom\b",
            r"external_fn_specification", r"#\[verifier::external\]"]
    lines = text.split("\n")
    for n, l in enumerate(lines):
        if l.strip().startswith("//"):
            continue
        for p in pats:
            if re.search(p, l):
                # name the item: next `fn`/`struct` line at or after
                name = ""
                for k in range(n, min(n + 6, len(lines))):
                    m = re.search(r"\b(fn|struct|enum)\s+([A-Za-z0-9_]+)", lines[k])
                    if m:
                        name = m.group(2)
                        break
                out.append("%s: %s %s" % (label, re.sub(r"\\[bs]|\\|\*|\(|\)|\[|\]|#", "", p).strip(), name))
                break
    seen, res = set(), []
    for o in out:
        if o not in seen:
            seen.add(o); res.append(o)
    return res


def evidence_dir(ctx):
    """/verif/evidence is only written by runs against /repo itself; runs against a scratch copy (--repo) write under
    .work so that committed evidence always describes the real tree"""
    scratch = os.path.abspath(ctx.repo) != "/repo" or os.environ.get("VERIF_EVIDENCE_SCRATCH")
    d = os.path.join(ctx.here, ".work", "evidence-scratch") if scratch else os.path.join(ctx.here, "evidence")
    os.makedirs(d, exist_ok=True)
    return d


def write_replay(ctx, obligation, payload):
    d = os.path.join(evidence_dir(ctx), "replay")
    os.makedirs(d, exist_ok=True)
    name = "%s-%s.json" % (ctx.pid, re.sub(r"[^A-Za-z0-9_.-]+", "_", obligation))
    p = os.path.join(d, name)
    json.dump(payload, open(p, "w"), indent=1)
    return p


def known_for(ctx, obligation):
    for f in ctx.known.get("findings", []):
        if f["property"] == ctx.pid and f["obligation"] == obligation:
            return f
    return None


def run_witness(ctx, finding):
    """Re-execute the listed witness of a known finding on the real code. True = it still fails there."""
    import replay_runner
    return replay_runner.run(ctx, finding["replay"], finding.get("witness"))


def conclude(ctx, prop, results, wall):
    pid = ctx.pid
    undecided = [r for r in results if r["status"] == "undecided"]
    # obligations are counted per property: an obligation tagged for other properties only is not this check's business
    rel = [o for r in results for o in r.get("obl_list", []) if o.get("props") is None or pid in o["props"]]
    obligations = len(rel)
    discharged = len([o for o in rel if o["ok"]])
    failures = []
    for r in results:
        for f in r["failures"]:
            if f.get("props") is None or pid in f["props"]:
                failures.append(dict(f, unit=r["unit"], engine=r["engine"]))
    violations, known_hit, stale = [], [], []
    lines = []
    # thorough tier: bounded searches through the real API (see ./check)
    bounded_searches = []
    done_searches = set()
    for r in results:
        spec = r.get("thorough_search")
        if not spec or json.dumps(spec, sort_keys=True) in done_searches:
            continue
        done_searches.add(json.dumps(spec, sort_keys=True))
        import replay_runner
        f = {"obligation": "%s#bounded-api-search" % r["unit"], "props": None, "message": "the bounded search through the real public API (%s) found a failing input" % spec.get("name"),
             "item": r["unit"], "detail": "", "search": spec, "unit": r["unit"], "engine": "replay"}
        try:
            w = replay_runner.search(ctx, spec, f)
        except Exception as e:
            w = None
            f["search_error"] = str(e)
        bounded_searches.append({"obligation": f["obligation"], "kind": "bounded", "bound": "enumeration coded in replay/src/main.rs::%s" % spec.get("name"), "found_failing_input": w is not None})
        if w is not None:
            f["counterexample_from_search"] = w
            failures.append(f)
    # undecided units: no proof either way.  If a counterexample search through the real public API is registered for the
    # unit and finds a failing input, that input IS a violation (replayed on the real code); otherwise the unit stays undecided.
    for r in list(undecided):
        spec = r.get("fallback_search")
        if not spec:
            continue
        import replay_runner
        f = {"obligation": "%s#not-processed-but-failing-input-found" % r["unit"], "props": None, "message": "the unit could not be processed (%s); the registered search through the real API found a failing input" % (r.get("undecided_reason") or "")[:300],
             "item": r["unit"], "detail": r.get("undecided_reason"), "search": spec, "unit": r["unit"], "engine": r["engine"]}
        try:
            w = replay_runner.search(ctx, spec, f)
        except Exception as e:
            w = None
        if w is not None:
            f["counterexample_from_search"] = w
            failures.append(f)
            undecided.remove(r)
    for f in failures:
        k = known_for(ctx, f["obligation"])
        if k is not None:
            try:
                still = run_witness(ctx, k)
            except Exception as e:  # replay infrastructure problem: undecided, never an alarm
                undecided.append({"unit": f["unit"], "undecided_reason": "witness replay failed to run: %s" % e})
                continue
            if still:
                known_hit.append(k)
                lines.append("KNOWN-FINDING: property=%s %s" % (pid, k["what"]))
                continue
            stale.append(k["obligation"])
        # unlisted violation
        rp = None
        found_input = f.get("counterexample")
        if found_input is None and f.get("counterexample_from_search") is not None:
            found_input = f["counterexample_from_search"]
        elif found_input is None and f.get("search"):
            import replay_runner
            try:
                found_input = replay_runner.search(ctx, f["search"], f)
            except Exception as e:
                found_input = None
                f["search_error"] = str(e)
        payload = {"property": pid, "obligation": f["obligation"], "unit": f["unit"], "engine": f["engine"],
                   "message": f.get("message"), "item": f.get("item"), "contract_obligations_of_item": f.get("serves"), "verifier_output": f.get("detail"),
                   "counterexample": found_input, "replayed_on_real_code": bool(f.get("replayed")) or (found_input is not None and f.get("search") is not None),
                   "replay": f.get("replay")}
        rp = write_replay(ctx, f["obligation"], payload)
        if f.get("counterexample") is not None and f.get("replayed") is False:
            # a solver counterexample that does not reproduce on the real code is a tool/harness problem
            undecided.append({"unit": f["unit"], "undecided_reason": "counterexample for %s did not reproduce on the real code" % f["obligation"]})
            continue
        violations.append((f, rp, found_input))
    # witness-only findings: genuine defects shown by a concrete input on the real code that no obligation decides (e.g.
    # floating-point rounding, which the contracts treat as mathematical): the witness is re-run on every run; they
    # never count as obligations and never suppress a violation
    witness_only = []
    if True:
        for k in ctx.known.get("findings", []):
            if k["property"] == pid and k.get("kind") == "witness-only":
                try:
                    still = run_witness(ctx, k)
                except Exception as e:
                    undecided.append({"unit": "known-findings", "undecided_reason": "witness replay failed to run: %s" % e})
                    continue
                if still:
                    witness_only.append(k["obligation"])
                    lines.append("KNOWN-FINDING: property=%s %s" % (pid, k["what"]))
                else:
                    stale.append(k["obligation"])
    # residual: each known finding must still be the *only* failure of its obligation — handled by residual obligations in units
    trusted, functions, samples, cmds, bounded = [], [], [], [], []
    for r in results:
        trusted += r.get("trusted", [])
        functions += r.get("functions", [])
        samples += r.get("samples", [])
        cmds.append(r.get("checker_cmd", ""))
        bounded += r.get("bounded", [])
    trusted += prop.get("assumptions", [])
    seen = set(); t2 = []
    for t in trusted:
        if t not in seen:
            seen.add(t); t2.append(t)
    n_known_obl = len(set(k["obligation"] for k in known_hit))
    ev = {
        "property_id": pid, "tier": ctx.tier, "seed": ctx.seed, "level": "proof",
        "coverage": {
            "obligations": obligations - n_known_obl, "discharged": discharged,
            "refuted_known_findings": n_known_obl,
            "checker_cmd": " ; ".join(c for c in cmds if c),
            "trusted_base": t2,
            "samples": samples[:12],
            "functions_under_contract": functions,
            "bounded": bounded + bounded_searches,
            "known_findings_hit": [k["obligation"] for k in known_hit],
            "witness_only_findings_hit": witness_only,
            "stale_known_findings": stale,
            "failed_obligations": [f["obligation"] for f in failures],
            "undecided": [u.get("undecided_reason") for u in undecided],
            "per_unit": [{k: r.get(k) for k in ("unit", "engine", "status", "obligations", "discharged", "time_s", "smt_ms", "back_end", "canaries")} for r in results],
            "explanation": prop.get("explanation", ""),
        },
        "assumptions": prop.get("assumptions", []),
        "wall_s": round(wall, 2),
        "violations": len(violations),
    }
    json.dump(ev, open(os.path.join(evidence_dir(ctx), pid + ".json"), "w"), indent=1)
    for l in lines:
        print(l)
    for f, rp, inp in violations:
        tail = "" if (inp is not None or f.get("replayed") or f.get("counterexample") is not None) else " no-failing-input-found"
        print("VIOLATION property=%s replay=%s%s" % (pid, rp, tail))
        print("  obligation %s failed: %s%s" % (f["obligation"], f.get("message"),
              (" (inside the function whose contract carries: %s)" % ", ".join(f["serves"])) if f.get("serves") else ""))
    if violations:
        return 1
    if undecided:
        for u in undecided:
            print("UNDECIDED: %s: %s" % (u.get("unit"), u.get("undecided_reason")))
        return 2
    print("%s: %d/%d obligations discharged (%d attributed to known findings), %d functions under contract, %.1fs" % (
        pid, discharged, obligations, n_known_obl, len(functions), wall))
    return 0


def do_replay(here, repo, pid, path):
    p = json.load(open(path))
    print(json.dumps({k: p.get(k) for k in ("property", "obligation", "message", "counterexample")}, indent=1))
    if p.get("replay"):
        import replay_runner
        ctx = Ctx(here, repo, pid, "quick", 0)
        ok = replay_runner.run(ctx, p["replay"], p.get("counterexample"))
        print("replay on real code: %s" % ("FAILS (violation reproduced)" if ok else "does not fail"))
        return 1 if ok else 0
    print("no executable replay recorded for this obligation (verifier output only)")
    print(p.get("verifier_output"))
    return 1
