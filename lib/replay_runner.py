import os, subprocess, json, re


def build(ctx):
    wd = os.path.join(ctx.here, ".work", "replay-crate")
    os.makedirs(wd, exist_ok=True)
    src = os.path.join(ctx.here, "replay")
    toml = open(os.path.join(src, "Cargo.toml.in")).read().replace("@REPO@", os.path.abspath(ctx.repo)).replace("@SRC@", os.path.join(src, "src"))
    open(os.path.join(wd, "Cargo.toml"), "w").write(toml)
    lock = os.path.join(ctx.repo, "Cargo.lock")
    if os.path.exists(lock) and not os.path.exists(os.path.join(wd, "Cargo.lock")):
        import shutil
        shutil.copy(lock, os.path.join(wd, "Cargo.lock"))
    env = dict(os.environ, CARGO_NET_OFFLINE="true", CARGO_TARGET_DIR=os.path.join(ctx.here, ".work", "replay-target"))
    p = subprocess.run(["cargo", "build", "--offline"], cwd=wd, env=env, capture_output=True, text=True, timeout=1800)
    if p.returncode != 0:
        raise RuntimeError("replay crate build failed: " + p.stderr[-800:])
    return os.path.join(ctx.here, ".work", "replay-target", "debug", "qx_replay")


def run(ctx, replay, witness):
    """True iff the witness still violates the obligation on the real code (violated or panicked)."""
    if replay.get("kind") == "api":
        exe = build(ctx)
        p = subprocess.run([exe, replay["name"], json.dumps(witness or {})], capture_output=True, text=True, timeout=120)
        m = re.search(r"QX-REPLAY (\S+)", p.stdout)
        if not m or m.group(1) == "error":
            raise RuntimeError("replay gave no verdict: " + (p.stdout + p.stderr)[-400:])
        ctx.last_replay_output = p.stdout[-600:]
        return m.group(1) in ("violated", "panicked")
    raise RuntimeError("unknown replay kind %r" % replay.get("kind"))


def search(ctx, spec, failure):
    return None
