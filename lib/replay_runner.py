import os, subprocess, json, re


def build(ctx):
    import hashlib
    key = hashlib.sha1(os.path.abspath(ctx.repo).encode()).hexdigest()[:8]
    # one crate directory per repository path: checks of different trees may run side by side
    wd = os.path.join(ctx.here, ".work", "replay-crate-" + key)
    os.makedirs(wd, exist_ok=True)
    src = os.path.join(ctx.here, "replay")
    toml = open(os.path.join(src, "Cargo.toml.in")).read().replace("@REPO@", os.path.abspath(ctx.repo)).replace("@SRC@", os.path.join(src, "src"))
    open(os.path.join(wd, "Cargo.toml"), "w").write(toml)
    lock = os.path.join(ctx.repo, "Cargo.lock")
    if os.path.exists(lock) and not os.path.exists(os.path.join(wd, "Cargo.lock")):
        import shutil
        shutil.copy(lock, os.path.join(wd, "Cargo.lock"))
    tdir = os.path.join(ctx.here, ".work", "replay-target-" + key)
    env = dict(os.environ, CARGO_NET_OFFLINE="true", CARGO_TARGET_DIR=tdir)
    p = subprocess.run(["cargo", "build", "--offline"], cwd=wd, env=env, capture_output=True, text=True, timeout=1800)
    if p.returncode != 0:
        raise RuntimeError("replay crate build failed: " + p.stderr[-800:])
    return os.path.join(tdir, "debug", "qx_replay")


def run(ctx, replay, witness):
    """True iff the witness still violates the obligation on the real code (violated or panicked)."""
    if replay.get("kind") == "api":
        exe = build(ctx)
        p = subprocess.run([exe, replay["name"], json.dumps(witness or {})], capture_output=True, text=True, timeout=120)
        m = re.search(r"QX-REPLAY (\S+)", p.stdout)
        if not m or m.group(1) == "error":
            raise RuntimeError("replay gave no verdict: " + (p.stdout + p.stderr)[-400:])
        ctx.last_replay_output = p.stdout[-600:]
        return m.group(1) in ("violated", "panicked")
    raise RuntimeError("unknown replay kind %r" % replay.get("kind"))


def search(ctx, spec, failure):
    """Look for a concrete failing input of a refuted Verus obligation by enumerating a small grid through the real
    code (a search for a counterexample to report — not evidence of correctness)."""
    import itertools
    if spec.get("kind") == "api-self":
        # the replay program enumerates by itself and prints the witness it found
        if run(ctx, {"kind": "api", "name": spec["name"]}, {}):
            m = re.search(r"QX-WITNESS (\{.*\})", getattr(ctx, "last_replay_output", ""))
            if m:
                w = json.loads(m.group(1))
                failure["replay"] = {"kind": "api", "name": spec["replay"]}
                failure["replay_output"] = ctx.last_replay_output
                return w
        return None
    if spec.get("kind") != "api-enum":
        return None
    keys = sorted(spec["grid"].keys())
    for combo in itertools.product(*[spec["grid"][k] for k in keys]):
        w = dict(zip(keys, combo))
        try:
            if run(ctx, {"kind": "api", "name": spec["name"]}, w):
                failure["replay"] = {"kind": "api", "name": spec["name"]}
                failure["replay_output"] = getattr(ctx, "last_replay_output", "")
                return w
        except Exception:
            continue
    return None
