def run(ctx, replay, witness):
    raise RuntimeError("replay not implemented yet")
def search(ctx, spec, failure):
    return None
