//! qx — mechanical extractor: real Qrlew source -> Verus / Kani input.
//!
//! usage: qx <repo-root> <template> <out.rs> <report.json>
//!
//! The template is ordinary text (a Verus file or a Kani harness module) with directives:
//!
//!   //@fn <file> :: <impl-selector> :: <name> [key=value ...]
//!   <contract text, spliced between signature and body; may contain `//@loop <n> key=value` sections>
//!   //@end
//!
//!   //@item <file> :: <enum|struct|const|type> <Name> [key=value ...]      (single line)
//!   //@frag <file> :: <impl-selector> :: <fn> :: <fragment selector> [key=value ...]
//!   <header text: the `fn name(params) -> (r: T)` + contract for the fragment>
//!   //@end
//!
//! Exit codes: 0 ok; 2 lost anchor / unsupported construct (never a violation).
//! Everything not touched by a logged rewrite is copied byte-for-byte from the source span.

use proc_macro2::Span;
use quote::ToTokens;
use sha2::{Digest, Sha256};
use std::cell::{Cell, RefCell};
use std::collections::{BTreeMap, HashMap};
use std::ops::Range;
use syn::punctuated::Punctuated;
use syn::spanned::Spanned;
use syn::visit::{self, Visit};
use syn::{Expr, ImplItem, Item, Pat, Stmt, Token};

mod chain;
mod f64rw;
mod frag;

fn die(code: i32, msg: &str) -> ! {
    eprintln!("qx: {}", msg);
    std::process::exit(code)
}

pub struct FileCtx {
    pub path: String,
    pub src: String,
    pub ast: syn::File,
}

pub fn range(sp: Span) -> Range<usize> {
    sp.byte_range()
}

#[derive(Clone, Debug, Default)]
pub struct LoopSpec {
    pub opts: BTreeMap<String, String>,
    pub inv: String,
}

#[derive(Clone, Debug, Default)]
pub struct Opts {
    pub kv: BTreeMap<String, String>,
    pub loops: BTreeMap<usize, LoopSpec>,
    /// alternative specs for the same ordinal, selected by `kind=<terminal>` (a refactor find -> any keeps a contract)
    pub loop_alts: BTreeMap<usize, Vec<LoopSpec>>,
}

impl Opts {
    pub fn has_rw(&self, name: &str) -> bool {
        self.kv
            .get("rw")
            .map(|s| s.split(',').any(|x| x == name))
            .unwrap_or(false)
    }
    /// the loop spec for ordinal `n` whose `kind=` matches the terminal (or that has no kind)
    pub fn loop_spec(&self, n: usize, term: &str) -> Option<&LoopSpec> {
        let mut cands: Vec<&LoopSpec> = vec![];
        if let Some(v) = self.loop_alts.get(&n) {
            cands.extend(v.iter());
        }
        if let Some(l) = self.loops.get(&n) {
            cands.push(l);
        }
        cands.iter().find(|l| l.opts.get("kind").map(|k| k == term).unwrap_or(false)).or_else(|| cands.iter().find(|l| l.opts.get("kind").is_none())).copied()
    }
    pub fn get(&self, k: &str) -> Option<&str> {
        self.kv.get(k).map(|s| s.as_str())
    }
}

/// Renderer: source text + rewrite catalogue.
pub struct R<'a> {
    pub src: &'a str,
    pub opts: &'a Opts,
    pub log: RefCell<Vec<String>>,
    pub loop_ctr: Cell<usize>,
    pub errors: RefCell<Vec<String>>,
    /// identifier renames active in the current item (e.g. self -> self_)
    pub renames: RefCell<HashMap<String, String>>,
}

pub fn apply_edits(src: &str, r: Range<usize>, mut edits: Vec<(Range<usize>, String)>) -> String {
    edits.sort_by_key(|(rg, _)| (rg.start, rg.end));
    let mut out = String::new();
    let mut pos = r.start;
    for (rg, rep) in edits {
        if rg.start < pos {
            // nested edit inside an already replaced region: ignore (outer wins)
            continue;
        }
        out.push_str(&src[pos..rg.start]);
        out.push_str(&rep);
        pos = rg.end;
    }
    out.push_str(&src[pos..r.end]);
    out
}

impl<'a> R<'a> {
    pub fn new(src: &'a str, opts: &'a Opts) -> Self {
        R {
            src,
            opts,
            log: RefCell::new(vec![]),
            loop_ctr: Cell::new(0),
            errors: RefCell::new(vec![]),
            renames: RefCell::new(HashMap::new()),
        }
    }
    pub fn note(&self, s: impl Into<String>) {
        let s = s.into();
        let mut l = self.log.borrow_mut();
        if !l.contains(&s) {
            l.push(s);
        }
    }
    pub fn err(&self, s: impl Into<String>) {
        self.errors.borrow_mut().push(s.into());
    }
    pub fn verb(&self, sp: Span) -> &str {
        &self.src[range(sp)]
    }
    pub fn expr(&self, e: &Expr) -> String {
        let mut c = Coll { r: self, edits: vec![] };
        c.visit_expr(e);
        apply_edits(self.src, range(e.span()), c.edits)
    }
    pub fn block(&self, b: &syn::Block) -> String {
        let mut c = Coll { r: self, edits: vec![] };
        c.visit_block(b);
        apply_edits(self.src, range(b.span()), c.edits)
    }
    pub fn stmt(&self, s: &Stmt) -> String {
        let mut c = Coll { r: self, edits: vec![] };
        c.visit_stmt(s);
        apply_edits(self.src, range(s.span()), c.edits)
    }
    pub fn ty(&self, t: &syn::Type) -> String {
        let mut c = Coll { r: self, edits: vec![] };
        c.visit_type(t);
        apply_edits(self.src, range(t.span()), c.edits)
    }
    pub fn pat(&self, p: &Pat) -> String {
        let mut c = Coll { r: self, edits: vec![] };
        c.visit_pat(p);
        apply_edits(self.src, range(p.span()), c.edits)
    }
    pub fn sig(&self, s: &syn::Signature) -> String {
        let mut c = Coll { r: self, edits: vec![] };
        c.visit_signature(s);
        apply_edits(self.src, range(s.span()), c.edits)
    }
    pub fn item(&self, it: &Item) -> String {
        let mut c = Coll { r: self, edits: vec![] };
        c.visit_item(it);
        apply_edits(self.src, range(it.span()), c.edits)
    }

    /// expression-level rewrite catalogue; None = copy verbatim (children still visited)
    fn rw_expr(&self, e: &Expr) -> Option<String> {
        // identifier renames (R1: self -> self_)
        if let Expr::Path(p) = e {
            if p.qself.is_none() && p.path.segments.len() == 1 {
                let id = p.path.segments[0].ident.to_string();
                if let Some(n) = self.renames.borrow().get(&id) {
                    return Some(n.clone());
                }
            }
        }
        if let Expr::Closure(cl) = e {
            // |(a, b)| body  ->  |qx_c0| { let (a, b) = qx_c0; body }   (closure parameter patterns are irrefutable bindings)
            if self.opts.has_rw("closure_pat") && cl.inputs.iter().any(|p| !matches!(p, syn::Pat::Ident(_) | syn::Pat::Wild(_) | syn::Pat::Type(_))) {
                self.note("R5b closure parameter pattern `|(a, b)| body` -> `|qx_c0| { let (a, b) = qx_c0; body }`");
                let mut names = vec![]; let mut lets = String::new();
                for (k, p) in cl.inputs.iter().enumerate() {
                    match p {
                        syn::Pat::Ident(_) | syn::Pat::Wild(_) | syn::Pat::Type(_) => names.push(self.pat(p)),
                        other => { names.push(format!("qx_c{}", k)); lets.push_str(&format!("let {} = qx_c{}; ", self.pat(other), k)); }
                    }
                }
                let mv = if cl.capture.is_some() { "move " } else { "" };
                return Some(format!("{}|{}| {{ {}{} }}", mv, names.join(", "), lets, self.expr(&cl.body)));
            }
        }
        if let Expr::Call(c) = e {
            // (*f)(args): a call through a dereferenced function object (an `Arc<dyn Fn…>` field)
            if self.opts.has_rw("fnptr") {
                if let Expr::Paren(p) = &*c.func {
                    if let Expr::Unary(u) = &*p.expr {
                        if matches!(u.op, syn::UnOp::Deref(_)) {
                            self.note("R15 `(*f)(args)` -> qx_call(&f, args) (prelude: the function object's own specification)");
                            let args: Vec<String> = c.args.iter().map(|a| self.expr(a)).collect();
                            return Some(format!("qx_call(&{}, {})", self.expr(&u.expr), args.join(", ")));
                        }
                    }
                    // (self.f)(args): the same through auto-deref of a field holding the function object
                    if let Expr::Field(_) = &*p.expr {
                        self.note("R15 `(x.f)(args)` -> qx_call(&x.f, args) (prelude: the function object's own specification)");
                        let args: Vec<String> = c.args.iter().map(|a| self.expr(a)).collect();
                        return Some(format!("qx_call(&{}, {})", self.expr(&p.expr), args.join(", ")));
                    }
                }
            }
        }
        if let Expr::Assign(asg) = e {
            // v[i][j] = x  ->  qx_set2(&mut v, i, j, x)   (verified helper: IndexMut on Vec then on the array)
            if let Expr::Index(outer) = &*asg.left {
                if let Expr::Index(inner) = &*outer.expr {
                    self.note("R8 v[i][j] = x -> qx_set2(&mut v, i, j, x) (verified helper with IndexMut semantics)");
                    return Some(format!(
                        "{{ let qx_si = {}; let qx_sj = {}; let qx_sx = {}; qx_set2(&mut {}, qx_si, qx_sj, qx_sx) }}",
                        self.expr(&inner.index),
                        self.expr(&outer.index),
                        self.expr(&asg.right),
                        self.expr(&inner.expr)
                    ));
                }
            }
        }
        if let Expr::MethodCall(mc) = e {
            if mc.method == "drain" && mc.args.len() == 1 {
                if let Expr::Range(rg) = &mc.args[0] {
                    if let (Some(a), Some(b)) = (&rg.start, &rg.end) {
                        self.note("R8 vec.drain(a..b) -> qx_drain(&mut vec, a, b) (verified helper with std semantics)");
                        return Some(format!("{{ let qx_da = {}; let qx_db = {}; qx_drain(&mut {}, qx_da, qx_db) }}", self.expr(a), self.expr(b), self.expr(&mc.receiver)));
                    }
                }
            }
            if let Some(spec) = self.opts.get("mrename") {
                for ent in spec.split(',') {
                    if let Some((from, to)) = ent.split_once("=>") {
                        if mc.method == from.trim() {
                            self.note(format!("R8 trait method `.{}()` -> prelude trait method `.{}()` (same dispatch by expected type)", from.trim(), to.trim()));
                            let args: Vec<String> = mc.args.iter().map(|a| self.expr(a)).collect();
                            return Some(format!("{}.{}({})", self.expr(&mc.receiver), to.trim(), args.join(", ")));
                        }
                    }
                }
            }
            if let Some(spec) = self.opts.get("mcall") {
                let recv_txt = norm(self.verb(mc.receiver.span()));
                let is_tuple = matches!(&*mc.receiver, Expr::Tuple(_));
                for ent in spec.split(';') {
                    if let Some((lhs, f)) = ent.split_once("=>") {
                        if let Some((rc, m)) = lhs.trim().rsplit_once('.') {
                            let rc = norm(rc);
                            if mc.method == m.trim() && (rc == recv_txt || (rc == "(tuple)" && is_tuple) || rc == "*") {
                                self.note(format!("R8 method call `{}.{}` -> prelude/extracted function `{}`", rc, m.trim(), f.trim()));
                                // `=>&f`: the receiver is a place (e.g. a field), passed by reference as auto-ref does
                                // `=>&mut f`: by mutable reference; a trailing `!` drops the call's own arguments (e.g. the comparator of
                                // sort_by, when the helper is specified for that very comparator)
                                let (f, drop_args) = match f.trim().strip_suffix('!') { Some(g) => (g.trim(), true), None => (f.trim(), false) };
                                let (f, refkind) = match f.strip_prefix("&mut ") { Some(g) => (g.trim(), "&mut "), None => match f.strip_prefix('&') { Some(g) => (g.trim(), "&"), None => (f, "") } };
                                let mut args = vec![format!("{}{}", refkind, self.expr(&mc.receiver))];
                                if !drop_args {
                                    for a in mc.args.iter() {
                                        args.push(self.expr(a));
                                    }
                                }
                                return Some(format!("{}({})", f.trim(), args.join(", ")));
                            }
                        }
                    }
                }
            }
        }
        if let Expr::Index(ix) = e {
            if let Some(target) = self.opts.get("index_call") {
                if target.split('|').any(|t| norm(t) == norm(self.verb(ix.expr.span()))) {
                    self.note("R8 Index::index on a non-Vec container -> prelude accessor qx_index");
                    return Some(format!("{}.{}({})", self.expr(&ix.expr), self.opts.get("index_fn").unwrap_or("qx_index"), self.expr(&ix.index)));
                }
            }
        }
        if let Expr::Macro(m) = e {
            let name = m.mac.path.segments.last().map(|s| s.ident.to_string()).unwrap_or_default();
            if name == "assert" {
                if let Ok(args) = m.mac.parse_body_with(Punctuated::<Expr, Token![,]>::parse_terminated) {
                    if let Some(c) = args.first() {
                        self.note("R12 `assert!(c)` -> qx_assert(c) (prelude: requires c — the runtime assertion is an obligation)");
                        return Some(format!("qx_assert({})", self.expr(c)));
                    }
                }
            }
            if matches!(name.as_str(), "todo" | "unimplemented" | "unreachable" | "panic") {
                self.note(format!("R12 `{}!()` -> qx_unreachable() (prelude: requires false — reaching it is an obligation)", name));
                return Some("qx_unreachable()".to_string());
            }
        }
        if let Expr::Macro(m) = e {
            let name = m.mac.path.segments.last().map(|s| s.ident.to_string()).unwrap_or_default();
            if name == "format" && self.opts.has_rw("str") {
                if let Ok(args) = m.mac.parse_body_with(Punctuated::<Expr, Token![,]>::parse_terminated) {
                    let mut it = args.iter();
                    if let Some(Expr::Lit(l)) = it.next() {
                        let lit = l.to_token_stream().to_string();
                        let mut h: u64 = 1469598103934665603;
                        for b in lit.bytes() {
                            h = (h ^ (b as u64)).wrapping_mul(1099511628211);
                        }
                        let rest: Vec<String> = it.map(|a| self.expr(a)).collect();
                        self.note("R9 format!(lit, args) -> qx_format<n>(hash(lit), args): an opaque name that is a function of the literal and the arguments");
                        return Some(format!("qx_format{}({}u64{}{})", rest.len(), h % 1000000007, if rest.is_empty() { "" } else { ", " }, rest.join(", ")));
                    }
                }
            }
        }
        if let Some(s) = f64rw::rw_f64(self, e) {
            return Some(s);
        }
        if let Some(s) = chain::rw_for(self, e) {
            return Some(s);
        }
        if let Some(s) = chain::rw_chain(self, e) {
            return Some(s);
        }
        if let Some(s) = chain::rw_map_transpose(self, e) {
            return Some(s);
        }
        if let Some(s) = chain::rw_option(self, e) {
            return Some(s);
        }
        None
    }
}

pub struct Coll<'r, 'a> {
    pub r: &'r R<'a>,
    pub edits: Vec<(Range<usize>, String)>,
}

impl<'r, 'a, 'ast> Visit<'ast> for Coll<'r, 'a> {
    fn visit_expr(&mut self, e: &'ast Expr) {
        if let Some(s) = self.r.rw_expr(e) {
            self.edits.push((range(e.span()), s));
        } else {
            visit::visit_expr(self, e)
        }
    }
    fn visit_attribute(&mut self, a: &'ast syn::Attribute) {
        // R10: attributes and doc comments carry no semantics for the verifier
        self.edits.push((range(a.span()), String::new()));
    }
    fn visit_visibility(&mut self, v: &'ast syn::Visibility) {
        if !matches!(v, syn::Visibility::Inherited) && self.r.opts.get("vis") != Some("keep") {
            self.edits.push((range(v.span()), String::new()));
        }
    }
    fn visit_macro(&mut self, m: &'ast syn::Macro) {
        let name = m.path.segments.last().map(|s| s.ident.to_string()).unwrap_or_default();
        match name.as_str() {
            "vec" | "assert" | "assert_eq" | "debug_assert" => {
                if let Ok(args) = m.parse_body_with(Punctuated::<Expr, Token![,]>::parse_terminated) {
                    for a in args.iter() {
                        self.visit_expr(a);
                    }
                }
            }
            _ => {}
        }
    }
    fn visit_type(&mut self, t: &'ast syn::Type) {
        if let Some(s) = self.r.rw_type(t) {
            self.edits.push((range(t.span()), s));
        } else {
            visit::visit_type(self, t)
        }
    }
    fn visit_stmt(&mut self, st: &'ast Stmt) {
        if let Stmt::Macro(sm) = st {
            let name = sm.mac.path.segments.last().map(|s| s.ident.to_string()).unwrap_or_default();
            if name == "assert_eq" {
                if let Ok(args) = sm.mac.parse_body_with(Punctuated::<Expr, Token![,]>::parse_terminated) {
                    if args.len() >= 2 {
                        self.r.note("R12 `assert_eq!(a, b)` -> qx_assert(a == b)");
                        self.edits.push((range(st.span()), format!("qx_assert({} == {});", self.r.expr(&args[0]), self.r.expr(&args[1]))));
                        return;
                    }
                }
            }
            if name == "assert" {
                if let Ok(args) = sm.mac.parse_body_with(Punctuated::<Expr, Token![,]>::parse_terminated) {
                    if let Some(c) = args.first() {
                        self.r.note("R12 `assert!(c)` -> qx_assert(c) (prelude: requires c — the runtime assertion is an obligation)");
                        self.edits.push((range(st.span()), format!("qx_assert({});", self.r.expr(c))));
                        return;
                    }
                }
            }
            if matches!(name.as_str(), "todo" | "unimplemented" | "unreachable" | "panic") {
                self.r.note(format!("R12 `{}!()` -> qx_unreachable() (prelude: requires false — reaching it is an obligation)", name));
                self.edits.push((range(st.span()), "qx_unreachable::<()>();".to_string()));
                return;
            }
        }
        visit::visit_stmt(self, st)
    }
    fn visit_arm(&mut self, arm: &'ast syn::Arm) {
        // R5: reference patterns `&x` in a match arm -> bind `x` (a reference) and read it as `(*x)` in the arm
        if self.r.opts.has_rw("refpat") {
            struct RefPats<'x>(Vec<(&'x syn::PatReference, String)>);
            impl<'x> Visit<'x> for RefPats<'x> {
                fn visit_pat_reference(&mut self, pr: &'x syn::PatReference) {
                    if let Pat::Ident(pi) = &*pr.pat {
                        self.0.push((pr, pi.ident.to_string()));
                    }
                }
            }
            let mut rp = RefPats(vec![]);
            rp.visit_pat(&arm.pat);
            if !rp.0.is_empty() {
                self.r.note("R5 reference pattern `&x` -> binding `x` read as `(*x)`");
                for (pr, name) in &rp.0 {
                    self.edits.push((range(pr.span()), name.clone()));
                    self.r.renames.borrow_mut().insert(name.clone(), format!("(*{})", name));
                }
                if let Some((_, g)) = &arm.guard {
                    self.edits.push((range(g.span()), self.r.expr(g)));
                }
                self.edits.push((range(arm.body.span()), self.r.expr(&arm.body)));
                for (_, name) in &rp.0 {
                    self.r.renames.borrow_mut().remove(name);
                }
                return;
            }
        }
        visit::visit_arm(self, arm)
    }
    fn visit_field(&mut self, f: &'ast syn::Field) {
        if self.r.opts.get("pubfields").is_some() && matches!(f.vis, syn::Visibility::Inherited) {
            if let Some(id) = &f.ident {
                let st = range(id.span()).start;
                self.edits.push((st..st, "pub ".to_string()));
            }
        }
        visit::visit_field(self, f)
    }
    fn visit_generics(&mut self, g: &'ast syn::Generics) {
        // R6: monomorphisation — the generic parameter named in `strip_generic` is provided by the unit as a type alias
        if let Some(name) = self.r.opts.get("strip_generic") {
            if g.lt_token.is_some() {
                let keep: Vec<String> = g
                    .params
                    .iter()
                    .filter(|p| match p {
                        syn::GenericParam::Type(t) => t.ident != name,
                        _ => true,
                    })
                    .map(|p| self.r.verb(p.span()).to_string())
                    .collect();
                if keep.len() != g.params.len() {
                    self.r.note(format!("R6 generic parameter `{}` instantiated (type alias in the unit)", name));
                    let start = g.lt_token.unwrap().span().byte_range().start;
                    let end = g.gt_token.unwrap().span().byte_range().end;
                    let txt = if keep.is_empty() { String::new() } else { format!("<{}>", keep.join(", ")) };
                    self.edits.push((start..end, txt));
                    return;
                }
            }
        }
        visit::visit_generics(self, g)
    }
    fn visit_path_segment(&mut self, seg: &'ast syn::PathSegment) {
        if let Some(name) = self.r.opts.get("strip_generic") {
            if let syn::PathArguments::AngleBracketed(ab) = &seg.arguments {
                let only = ab.args.len() == 1
                    && matches!(&ab.args[0], syn::GenericArgument::Type(syn::Type::Path(tp)) if tp.path.is_ident(name));
                if only {
                    self.edits.push((range(ab.span()), String::new()));
                    self.r.note(format!("R6 generic parameter `{}` instantiated (type alias in the unit)", name));
                    return;
                }
            }
        }
        // R9b: type-name substitution (prelude stand-ins for opaque crate types)
        if let Some(spec) = self.r.opts.get("tysubst") {
            let id = seg.ident.to_string();
            for ent in spec.split(';') {
                if let Some((from, to)) = ent.split_once("=>") {
                    if from.trim() == id {
                        self.edits.push((range(seg.ident.span()), to.trim().to_string()));
                        self.r.note(format!("R9 type name `{}` -> prelude stand-in `{}`", from.trim(), to.trim()));
                    }
                }
            }
        }
        visit::visit_path_segment(self, seg)
    }
    fn visit_receiver(&mut self, rc: &'ast syn::Receiver) {
        // R1: `mut self` -> `self` (+ `let mut self_ = self;` inserted by render_fn)
        if rc.reference.is_none() && rc.mutability.is_some() && rc.colon_token.is_none() {
            self.edits.push((range(rc.span()), "self".to_string()));
            self.r.note("R1 mut-self");
        }
    }
    fn visit_expr_match(&mut self, m: &'ast syn::ExprMatch) {
        // R4: fixed-arity slice patterns on a tuple scrutinee component
        if self.r.opts.has_rw("slicepat") {
            if let Expr::Tuple(t) = &*m.expr {
                for (k, comp) in t.elems.iter().enumerate() {
                    let mut arity: Option<usize> = None;
                    let mut consistent = true;
                    for arm in &m.arms {
                        let mut alts: Vec<&Pat> = vec![];
                        flatten_or(&arm.pat, &mut alts);
                        for a in alts {
                            if let Pat::Tuple(pt) = a {
                                if let Some(Pat::Slice(ps)) = pt.elems.iter().nth(k) {
                                    let n = ps.elems.len();
                                    if ps.elems.iter().any(|p| matches!(p, Pat::Rest(_))) {
                                        consistent = false;
                                    }
                                    match arity {
                                        None => arity = Some(n),
                                        Some(x) if x != n => consistent = false,
                                        _ => {}
                                    }
                                }
                            }
                        }
                    }
                    if let Some(n) = arity {
                        if !consistent || n == 0 || n > 2 {
                            self.r.err("unsupported slice patterns (mixed arity or rest pattern)");
                        } else {
                            self.r.note(format!("R4 slice pattern of arity {} -> qx_slice{}() + Some(..) pattern", n, n));
                            self.edits.push((range(comp.span()), format!("qx_slice{}({})", n, self.r.expr(comp))));
                        }
                    }
                }
            }
        }
        visit::visit_expr_match(self, m)
    }
    fn visit_pat(&mut self, p: &'ast Pat) {
        if let Pat::Slice(ps) = p {
            if self.r.opts.has_rw("slicepat") {
                let parts: Vec<String> = ps.elems.iter().map(|q| self.r.pat(q)).collect();
                let txt = if parts.len() == 1 { format!("Some({})", parts[0]) } else { format!("Some(({}))", parts.join(", ")) };
                self.edits.push((range(p.span()), txt));
                return;
            }
        }
        visit::visit_pat(self, p)
    }
}

impl<'a> R<'a> {
    fn rw_type(&self, t: &syn::Type) -> Option<String> {
        // R9c: whole-type substitution (`tyfull="Hierarchy<Arc<Relation>>=>Hier"`), compared on whitespace-normalised text
        if let Some(spec) = self.opts.get("tyfull") {
            let txt = norm(&t.to_token_stream().to_string());
            for ent in spec.split(';') {
                if let Some((from, to)) = ent.split_once("=>") {
                    if norm(from) == txt {
                        self.note(format!("R9 type `{}` -> prelude stand-in `{}`", from.trim(), to.trim()));
                        return Some(to.trim().to_string());
                    }
                }
            }
        }
        // R9: String / str -> Str (opaque, equality only) when the unit asks for it
        if !self.opts.has_rw("str") {
            return None;
        }
        if let syn::Type::Path(tp) = t {
            if tp.qself.is_none() && tp.path.segments.len() == 1 {
                let seg = &tp.path.segments[0];
                let id = seg.ident.to_string();
                if (id == "String" || id == "str") && seg.arguments.is_none() {
                    self.note("R9 String->Str");
                    return Some("Str".to_string());
                }
            }
        }
        None
    }
}

fn flatten_or<'p>(p: &'p Pat, out: &mut Vec<&'p Pat>) {
    match p {
        Pat::Or(o) => {
            for c in &o.cases {
                flatten_or(c, out)
            }
        }
        Pat::Paren(pp) => flatten_or(&pp.pat, out),
        other => out.push(other),
    }
}

// ---------------------------------------------------------------------------------------------
// selectors

fn norm(s: &str) -> String {
    s.chars().filter(|c| !c.is_whitespace()).collect()
}

/// `impl <SelfTy> [as <Trait>]` or `-` for a free function. A quoted selector compares the whole
/// whitespace-normalised token text of the self type (with generics); unquoted compares the last path
/// segment identifier only.
pub fn find_fn<'f>(f: &'f FileCtx, imp: &str, name: &str) -> Result<(Option<&'f syn::ItemImpl>, FnRef<'f>), String> {
    let imp = imp.trim();
    let mut found: Vec<(Option<&syn::ItemImpl>, FnRef)> = vec![];
    fn walk<'f>(items: &'f [Item], imp: &str, name: &str, found: &mut Vec<(Option<&'f syn::ItemImpl>, FnRef<'f>)>) {
        for it in items {
            match it {
                Item::Fn(func) if imp == "-" => {
                    if func.sig.ident == name {
                        found.push((None, FnRef::Free(func)));
                    }
                }
                Item::Impl(ii) if imp != "-" => {
                    if impl_matches(ii, imp) {
                        for m in &ii.items {
                            if let ImplItem::Fn(mf) = m {
                                if mf.sig.ident == name {
                                    found.push((Some(ii), FnRef::Method(mf)));
                                }
                            }
                        }
                    }
                }
                Item::Mod(m) => {
                    // do not descend into #[cfg(test)] modules
                    let is_test = m.attrs.iter().any(|a| a.to_token_stream().to_string().contains("test"));
                    if !is_test {
                        if let Some((_, items)) = &m.content {
                            walk(items, imp, name, found);
                        }
                    }
                }
                _ => {}
            }
        }
    }
    walk(&f.ast.items, imp, name, &mut found);
    match found.len() {
        1 => Ok(found.pop().unwrap()),
        0 => Err(format!("lost anchor: no fn `{}` in `{}` of {}", name, imp, f.path)),
        n => Err(format!("lost anchor: {} candidates for fn `{}` in `{}` of {}", n, name, imp, f.path)),
    }
}

pub fn impl_matches(ii: &syn::ItemImpl, sel: &str) -> bool {
    // sel: `impl X` | `impl X as T` | `impl "X<..>" as "T<..>"`
    let sel = sel.trim().strip_prefix("impl").unwrap_or(sel).trim();
    let (ty_sel, tr_sel) = match sel.split_once(" as ") {
        Some((a, b)) => (a.trim(), Some(b.trim())),
        None => (sel, None),
    };
    let ty_txt = norm(&ii.self_ty.to_token_stream().to_string());
    let ty_ok = if ty_sel.starts_with('"') {
        norm(ty_sel.trim_matches('"')) == ty_txt
    } else {
        last_ident_of_type(&ii.self_ty).map(|s| s == ty_sel).unwrap_or(false)
    };
    if !ty_ok {
        return false;
    }
    match (tr_sel, &ii.trait_) {
        (None, None) => true,
        (Some(ts), Some((_, p, _))) => {
            if ts.starts_with('"') {
                norm(ts.trim_matches('"')) == norm(&p.to_token_stream().to_string())
            } else {
                p.segments.last().map(|s| s.ident == ts).unwrap_or(false)
            }
        }
        _ => false,
    }
}

fn last_ident_of_type(t: &syn::Type) -> Option<String> {
    match t {
        syn::Type::Path(p) => p.path.segments.last().map(|s| s.ident.to_string()),
        syn::Type::Reference(r) => last_ident_of_type(&r.elem),
        _ => None,
    }
}

#[derive(Clone, Copy)]
pub enum FnRef<'f> {
    Free(&'f syn::ItemFn),
    Method(&'f syn::ImplItemFn),
}

impl<'f> FnRef<'f> {
    pub fn sig(&self) -> &'f syn::Signature {
        match self {
            FnRef::Free(f) => &f.sig,
            FnRef::Method(m) => &m.sig,
        }
    }
    pub fn block(&self) -> &'f syn::Block {
        match self {
            FnRef::Free(f) => &f.block,
            FnRef::Method(m) => &m.block,
        }
    }
    pub fn span(&self) -> Span {
        match self {
            FnRef::Free(f) => f.span(),
            FnRef::Method(m) => m.span(),
        }
    }
}

// ---------------------------------------------------------------------------------------------
// rendering of whole functions

/// return-type naming: `-> T` becomes `-> (r: T)` so that contracts can talk about `r`
fn render_fn(r: &R, fr: FnRef, contract: &str, as_name: Option<&str>) -> String {
    let sig = fr.sig();
    let mut_self = sig
        .receiver()
        .map(|rc| rc.reference.is_none() && rc.mutability.is_some() && rc.colon_token.is_none())
        .unwrap_or(false);
    // signature without return type
    let mut sig_txt = {
        let mut c = Coll { r, edits: vec![] };
        c.visit_signature(sig);
        // rename
        {
            let g = r.opts.get("generics").unwrap_or("");
            let n = as_name.map(|s| s.to_string()).unwrap_or_else(|| sig.ident.to_string());
            c.edits.push((range(sig.ident.span()), format!("{}{}", n, g)));
        }
        // named result
        if let syn::ReturnType::Type(_, ty) = &sig.output {
            let res = r.opts.get("ret").unwrap_or("r");
            c.edits.retain(|(rg, _)| !(rg.start >= range(ty.span()).start && rg.end <= range(ty.span()).end));
            let tytxt = r.opts.get("ret_type").map(|s| s.to_string()).unwrap_or_else(|| r.ty(ty));
            c.edits.push((range(ty.span()), format!("({}: {})", res, tytxt)));
        }
        apply_edits(r.src, range(sig.span()), c.edits)
    };
    if let Some(w) = &sig.generics.where_clause {
        // where clause is part of the signature span already
        let _ = w;
    }
    if r.opts.has_rw("nolifetimes") {
        sig_txt = sig_txt.replace("<'a>", "").replace("&'a ", "&").replace("<'a, ", "<");
    }
    if mut_self {
        r.renames.borrow_mut().insert("self".into(), "self_".into());
    }
    let body = {
        // ghost proof blocks may be injected at statement anchors (annotation only: no executable token is touched)
        let blk = fr.block();
        let mut c = Coll { r, edits: vec![] };
        c.visit_block(blk);
        if let Some(name) = r.opts.get("hoist_tail") {
            // R13: tail expression `L op R` (L = `&X` | `X`): X is evaluated first, so `let name = X; &name op R` is the same program
            let mut done = false;
            if blk.stmts.len() == 1 {
                if let Some(Stmt::Expr(Expr::Binary(b), None)) = blk.stmts.last() {
                    let mut x: &Expr = &b.left;
                    loop {
                        match x {
                            Expr::Reference(rf) => x = &rf.expr,
                            Expr::Paren(pp) => x = &pp.expr,
                            _ => break,
                        }
                    }
                    let xr = range(x.span());
                    let init = r.expr(x);
                    c.edits.retain(|(rg, _)| !(rg.start >= xr.start && rg.end <= xr.end));
                    c.edits.push((xr, name.to_string()));
                    let st = range(b.span()).start;
                    c.edits.push((st..st, format!("let {} = {};\n        ", name, init)));
                    r.note("R13 first-evaluated operand of the tail expression hoisted into a let");
                    done = true;
                }
            }
            if !done {
                r.err("hoist_tail: the body is not a single binary tail expression");
            }
        }
        if let Some(t) = r.opts.get("inject_before_tail") {
            if let Some(Stmt::Expr(e, None)) = blk.stmts.last() {
                let st = range(e.span()).start;
                c.edits.push((st..st, format!("proof {{ {} }}\n        ", t)));
                r.note("ghost proof block injected before the tail expression");
            } else {
                r.err("inject_before_tail: function has no tail expression");
            }
        }
        if let Some(spec) = r.opts.get("inject_after") {
            for ent in spec.split(";;") {
                if let Some((name, txt)) = ent.split_once(':') {
                    let mut found = false;
                    for st in &blk.stmts {
                        if let Stmt::Local(l) = st {
                            let mut ids = vec![];
                            frag::pat_idents(&l.pat, &mut ids);
                            if ids.len() == 1 && ids[0] == name.trim() && !found {
                                // the *last* let of that name wins when shadowed: keep scanning
                            }
                            if ids.len() == 1 && ids[0] == name.trim() {
                                found = true;
                                let en = range(st.span()).end;
                                c.edits.retain(|(rg, t)| !(rg.start == en && rg.end == en && t.starts_with("\n        proof {")));
                                c.edits.push((en..en, format!("\n        proof {{ {} }}", txt)));
                            }
                        }
                    }
                    if !found {
                        r.err(format!("lost anchor: inject_after: no `let {}`", name.trim()));
                    } else {
                        r.note(format!("ghost proof block injected after `let {}`", name.trim()));
                    }
                }
            }
        }
        apply_edits(r.src, range(blk.span()), c.edits)
    };
    r.renames.borrow_mut().remove("self");
    let ghosts: String = r
        .opts
        .get("ghost_params")
        .map(|g| g.split(',').filter_map(|e| e.split_once('=')).map(|(a, b)| format!("let ghost {} = {};\n        ", a.trim(), b.trim())).collect())
        .unwrap_or_default();
    let body = if mut_self {
        // R1
        format!("{{\n        let mut self_ = self;\n        {}{}\n    }}", ghosts, body)
    } else if !ghosts.is_empty() {
        format!("{{\n        {}{}\n    }}", ghosts, body)
    } else {
        body
    };
    let pre = r.opts.get("proof_before").map(|s| format!("proof {{ {} }}\n", s)).unwrap_or_default();
    let body = if let Some(pa) = r.opts.get("proof_after") {
        let res = r.opts.get("ret").unwrap_or("r");
        format!(
            "{{\n    {}let {res} = {};\n    proof {{ {} }}\n    {res}\n}}",
            pre,
            body,
            pa,
            res = res
        )
    } else if !pre.is_empty() {
        format!("{{\n    {}{}\n}}", pre, body)
    } else {
        body
    };
    let vis = match fr {
        FnRef::Free(f) => &f.vis,
        FnRef::Method(m) => &m.vis,
    };
    let pfx = if r.opts.get("vis") == Some("keep") && !matches!(vis, syn::Visibility::Inherited) { "pub " } else { "" };
    format!("{}{}\n{}\n{}", pfx, sig_txt, contract.trim_end(), body)
}

// ---------------------------------------------------------------------------------------------
// template processing

fn parse_kv(rest: &str) -> (Vec<String>, BTreeMap<String, String>) {
    // tokens separated by whitespace; key=value tokens (value may be "quoted with spaces")
    let mut pos = vec![];
    let mut kv = BTreeMap::new();
    let mut chars = rest.chars().peekable();
    let mut cur = String::new();
    let mut toks = vec![];
    let mut inq = false;
    while let Some(c) = chars.next() {
        if c == '"' {
            inq = !inq;
            cur.push(c);
        } else if c.is_whitespace() && !inq {
            if !cur.is_empty() {
                toks.push(std::mem::take(&mut cur));
            }
        } else {
            cur.push(c);
        }
    }
    if !cur.is_empty() {
        toks.push(cur);
    }
    for t in toks {
        if let Some((k, v)) = t.split_once('=') {
            if k.chars().all(|c| c.is_alphanumeric() || c == '_') && !k.is_empty() && !t.starts_with('"') {
                kv.insert(k.to_string(), v.trim_matches('"').to_string());
                continue;
            }
        }
        pos.push(t);
    }
    (pos, kv)
}

struct Report {
    items: Vec<serde_json::Value>,
}

fn sha(s: &str) -> String {
    let mut h = Sha256::new();
    h.update(s.as_bytes());
    h.finalize().iter().map(|b| format!("{:02x}", b)).collect()
}

fn main() {
    let args: Vec<String> = std::env::args().collect();
    if args.len() != 5 {
        die(2, "usage: qx <repo-root> <template> <out.rs> <report.json>");
    }
    let repo = &args[1];
    let tmpl = std::fs::read_to_string(&args[2]).unwrap_or_else(|e| die(2, &format!("cannot read template: {}", e)));
    let tmpl = expand_includes(&tmpl, std::path::Path::new(&args[2]).parent().unwrap(), 0);
    let mut files: HashMap<String, FileCtx> = HashMap::new();
    let mut out = String::new();
    let mut report = Report { items: vec![] };
    let lines: Vec<&str> = tmpl.lines().collect();
    let mut i = 0;
    let mut failures: Vec<String> = vec![];
    while i < lines.len() {
        let line = lines[i];
        let t = line.trim_start();
        if let Some(rest) = t.strip_prefix("//@fn ").or_else(|| t.strip_prefix("//@frag ")) {
            let is_frag = t.starts_with("//@frag ");
            // collect block until //@end
            let mut contract = String::new();
            let mut loops: BTreeMap<usize, LoopSpec> = BTreeMap::new();
            let mut loop_alts: BTreeMap<usize, Vec<LoopSpec>> = BTreeMap::new();
            let mut cur_loop: Option<usize> = None;
            i += 1;
            while i < lines.len() && lines[i].trim() != "//@end" {
                let l = lines[i];
                if let Some(lr) = l.trim_start().strip_prefix("//@loop ") {
                    let (p, kv) = parse_kv(lr);
                    let n: usize = p.get(0).and_then(|s| s.parse().ok()).unwrap_or_else(|| die(2, "bad //@loop"));
                    if let Some(prev) = loops.remove(&n) {
                        loop_alts.entry(n).or_default().push(prev);
                    }
                    loops.insert(n, LoopSpec { opts: kv, inv: String::new() });
                    cur_loop = Some(n);
                } else if let Some(n) = cur_loop {
                    let ls = loops.get_mut(&n).unwrap();
                    ls.inv.push_str(l);
                    ls.inv.push('\n');
                } else {
                    contract.push_str(l);
                    contract.push('\n');
                }
                i += 1;
            }
            i += 1; // skip //@end
            // selector: file :: impl :: name [:: fragsel]
            let (sel_part, kv_part) = split_sel(rest);
            let parts: Vec<&str> = sel_part.split("::").map(|s| s.trim()).collect();
            let (_p, kv) = parse_kv(&kv_part);
            let mut opts = Opts { kv, loops, loop_alts };
            if parts.len() < 3 {
                die(2, &format!("bad selector `{}`", rest));
            }
            // the impl selector may itself contain `::` inside quotes; re-join middle parts
            let file = parts[0].to_string();
            let (imp, name, fragsel) = if is_frag {
                (parts[1..parts.len() - 2].join("::"), parts[parts.len() - 2].to_string(), Some(parts[parts.len() - 1].to_string()))
            } else {
                (parts[1..parts.len() - 1].join("::"), parts[parts.len() - 1].to_string(), None)
            };
            let fc = load(&mut files, repo, &file);
            let gen_start = out.lines().count() + 1;
            match find_fn(fc, &imp, &name) {
                Err(e) => {
                    failures.push(e);
                }
                Ok((_ii, fr)) => {
                    // `$p<k>` in contract / invariant / proof text stands for the k-th non-self parameter's current name,
                    // so that a contract survives a parameter being renamed (e.g. to `_right` once it is unused)
                    if !is_frag {
                        let names: Vec<String> = fr
                            .sig()
                            .inputs
                            .iter()
                            .filter_map(|a| match a {
                                syn::FnArg::Typed(pt) => Some(match &*pt.pat {
                                    Pat::Ident(pi) => pi.ident.to_string(),
                                    other => other.to_token_stream().to_string(),
                                }),
                                _ => None,
                            })
                            .collect();
                        let sub = |t: &str| -> String {
                            let mut o = t.to_string();
                            for (k, n) in names.iter().enumerate().rev() {
                                o = o.replace(&format!("$p{}", k), n);
                            }
                            o
                        };
                        contract = sub(&contract);
                        for v in opts.kv.values_mut() { *v = sub(v); }
                        for ls in opts.loops.values_mut() { ls.inv = sub(&ls.inv); for v in ls.opts.values_mut() { *v = sub(v); } }
                        for alts in opts.loop_alts.values_mut() { for ls in alts.iter_mut() { ls.inv = sub(&ls.inv); for v in ls.opts.values_mut() { *v = sub(v); } } }
                    }
                    let r = R::new(&fc.src, &opts);
                    let (txt, orig_span) = if let Some(fs) = &fragsel {
                        match frag::render_frag(&r, fr, fs, &contract) {
                            Ok(x) => x,
                            Err(e) => {
                                failures.push(format!("{} ({} :: {} :: {})", e, file, imp, name));
                                (String::new(), fr.span())
                            }
                        }
                    } else {
                        (render_fn(&r, fr, &contract, opts.get("as")), fr.span())
                    };
                    for e in r.errors.borrow().iter() {
                        failures.push(format!("{} ({} :: {} :: {})", e, file, imp, name));
                    }
                    // indentation of directive
                    out.push_str(&format!("// qx-begin {} :: {} :: {}{}\n", file, imp, name, fragsel.as_ref().map(|s| format!(" :: {}", s)).unwrap_or_default()));
                    out.push_str(&txt);
                    out.push('\n');
                    out.push_str("// qx-end\n");
                    let gen_end = out.lines().count();
                    let orig = &fc.src[range(orig_span)];
                    report.items.push(serde_json::json!({
                        "kind": if is_frag {"fragment"} else {"fn"},
                        "file": file, "impl": imp, "name": name, "fragment": fragsel,
                        "as": opts.get("as"),
                        "src_lines": [orig_span.start().line, orig_span.end().line],
                        "sha256": sha(orig),
                        "rewrites": r.log.borrow().clone(),
                        "gen_lines": [gen_start, gen_end],
                    }));
                }
            }
            continue;
        } else if let Some(rest) = t.strip_prefix("//@item ") {
            let (sel_part, kv_part) = split_sel(rest);
            let parts: Vec<&str> = sel_part.split("::").map(|s| s.trim()).collect();
            let (_p, kv) = parse_kv(&kv_part);
            let opts = Opts { kv, loops: BTreeMap::new(), loop_alts: BTreeMap::new() };
            let file = parts[0].to_string();
            let what: Vec<&str> = parts[1].split_whitespace().collect();
            let fc = load(&mut files, repo, &file);
            let gen_start = out.lines().count() + 1;
            match find_item(fc, what[0], what[1]) {
                Err(e) => failures.push(e),
                Ok(it) => {
                    let r = R::new(&fc.src, &opts);
                    let mut txt = r.item(it);
                    if let Some(d) = opts.get("derive") {
                        txt = format!("#[derive({})]\n{}", d, txt);
                    }
                    if let Some(p) = opts.get("prefix") {
                        txt = format!("{}\n{}", p, txt);
                    }
                    out.push_str(&format!("// qx-begin {} :: {} {}\n", file, what[0], what[1]));
                    out.push_str(txt.trim_start());
                    out.push_str("\n// qx-end\n");
                    let gen_end = out.lines().count();
                    report.items.push(serde_json::json!({
                        "kind": "item", "file": file, "name": format!("{} {}", what[0], what[1]),
                        "src_lines": [it.span().start().line, it.span().end().line],
                        "sha256": sha(&fc.src[range(it.span())]),
                        "rewrites": r.log.borrow().clone(),
                        "gen_lines": [gen_start, gen_end],
                    }));
                }
            }
            i += 1;
            continue;
        }
        out.push_str(line);
        out.push('\n');
        i += 1;
    }
    std::fs::write(&args[3], &out).unwrap();
    let rep = serde_json::json!({"items": report.items, "failures": failures});
    std::fs::write(&args[4], serde_json::to_string_pretty(&rep).unwrap()).unwrap();
    if !failures.is_empty() {
        for f in &failures {
            eprintln!("qx: {}", f);
        }
        std::process::exit(2);
    }
}

/// `//@include <relative path>`: textual inclusion (shared preludes), relative to the including file
fn expand_includes(t: &str, dir: &std::path::Path, depth: usize) -> String {
    if depth > 8 {
        die(2, "include depth");
    }
    let mut out = String::new();
    for l in t.lines() {
        if let Some(p) = l.trim_start().strip_prefix("//@include ") {
            let path = dir.join(p.trim());
            let inc = std::fs::read_to_string(&path).unwrap_or_else(|e| die(2, &format!("cannot include {}: {}", path.display(), e)));
            out.push_str(&expand_includes(&inc, path.parent().unwrap(), depth + 1));
        } else {
            out.push_str(l);
            out.push('\n');
        }
    }
    out
}

/// split `file :: impl X as Y :: name key=v key2=v2` into selector and kv parts: kv part starts at the
/// first whitespace-separated token containing `=` that is outside quotes.
fn split_sel(rest: &str) -> (String, String) {
    let mut inq = false;
    let bytes: Vec<char> = rest.chars().collect();
    let mut tok_start = 0;
    let mut i = 0;
    while i <= bytes.len() {
        let at_end = i == bytes.len();
        let c = if at_end { ' ' } else { bytes[i] };
        if c == '"' {
            inq = !inq;
        }
        if c.is_whitespace() && !inq {
            let tok: String = bytes[tok_start..i].iter().collect();
            if tok.contains('=') && !tok.starts_with('"') && !tok.contains("::") {
                let sel: String = bytes[..tok_start].iter().collect();
                let kv: String = bytes[tok_start..].iter().collect();
                return (sel.trim().to_string(), kv);
            }
            tok_start = i + 1;
        }
        i += 1;
    }
    (rest.trim().to_string(), String::new())
}

fn load<'m>(files: &'m mut HashMap<String, FileCtx>, repo: &str, file: &str) -> &'m FileCtx {
    if !files.contains_key(file) {
        let p = format!("{}/{}", repo, file);
        let src = std::fs::read_to_string(&p).unwrap_or_else(|e| die(2, &format!("lost anchor: cannot read {}: {}", p, e)));
        let ast = syn::parse_file(&src).unwrap_or_else(|e| die(2, &format!("cannot parse {}: {}", p, e)));
        files.insert(file.to_string(), FileCtx { path: file.to_string(), src, ast });
    }
    &files[file]
}

fn find_item<'f>(f: &'f FileCtx, kind: &str, name: &str) -> Result<&'f Item, String> {
    let mut found = vec![];
    for it in &f.ast.items {
        let ok = match (kind, it) {
            ("enum", Item::Enum(e)) => e.ident == name,
            ("struct", Item::Struct(s)) => s.ident == name,
            ("const", Item::Const(c)) => c.ident == name,
            ("type", Item::Type(t)) => t.ident == name,
            ("static", Item::Static(t)) => t.ident == name,
            ("fn", Item::Fn(t)) => t.sig.ident == name,
            _ => false,
        };
        if ok {
            found.push(it);
        }
    }
    if found.len() == 1 {
        Ok(found[0])
    } else {
        Err(format!("lost anchor: {} candidates for {} {} in {}", found.len(), kind, name, f.path))
    }
}
