//! R7: in items declared `rw=f64`, every f64 operator / literal / constant / method is replaced by the same-named
//! prelude function whose *assumed* spec relates the denoted real of the result to the real operation on the
//! denoted reals of the arguments (rounding ignored, operands finite and non-NaN).

use crate::R;
use syn::spanned::Spanned;
use syn::{BinOp, Expr, Lit, UnOp};

fn norm(s: &str) -> String {
    s.chars().filter(|c| !c.is_whitespace()).collect()
}

fn float_lit(e: &Expr) -> Option<String> {
    match e {
        Expr::Lit(l) => match &l.lit {
            Lit::Float(f) => Some(f.base10_digits().to_string()),
            Lit::Int(i) if i.suffix().starts_with('f') => Some(i.base10_digits().to_string()),
            _ => None,
        },
        Expr::Paren(p) => float_lit(&p.expr),
        _ => None,
    }
}

/// decimal literal -> exact rational num/den
fn rational(digits: &str) -> Option<(String, String)> {
    let d = digits.trim_end_matches('.');
    if d.contains('e') || d.contains('E') {
        return None;
    }
    match d.split_once('.') {
        None => Some((d.to_string(), "1".to_string())),
        Some((a, b)) => {
            let den = format!("1{}", "0".repeat(b.len()));
            let num = format!("{}{}", a, b).trim_start_matches('0').to_string();
            Some((if num.is_empty() { "0".into() } else { num }, den))
        }
    }
}

fn lit_txt(digits: &str) -> String {
    match rational(digits) {
        Some((n, d)) => format!("f_const({}, {})", n, d),
        None => format!("f_const_unsupported(\"{}\")", digits),
    }
}

fn skip(r: &R, e: &Expr) -> bool {
    if let Some(s) = r.opts.get("f64_skip") {
        let t = norm(r.verb(e.span()));
        return s.split('|').any(|x| norm(x) == t);
    }
    false
}

pub fn rw_f64(r: &R, e: &Expr) -> Option<String> {
    if !r.opts.has_rw("f64") || skip(r, e) {
        return None;
    }
    match e {
        Expr::Lit(_) => float_lit(e).map(|d| {
            r.note("R7 f64 literal -> f_const(num, den)");
            lit_txt(&d)
        }),
        Expr::Binary(b) => {
            let name = match b.op {
                BinOp::Add(_) => "f_add",
                BinOp::Sub(_) => "f_sub",
                BinOp::Mul(_) => "f_mul",
                BinOp::Div(_) => "f_div",
                BinOp::Lt(_) => "f_lt",
                BinOp::Le(_) => "f_le",
                BinOp::Gt(_) => "f_gt",
                BinOp::Ge(_) => "f_ge",
                BinOp::Eq(_) => "f_eq",
                BinOp::Ne(_) => "f_ne",
                _ => return None,
            };
            r.note("R7 f64 operators -> prelude functions over the denoted reals (rounding ignored)");
            // `x > &0.0`: comparison through references
            let (l, rt) = match &*b.right {
                Expr::Reference(rf) if float_lit(&rf.expr).is_some() => (format!("*({})", r.expr(&b.left)), lit_txt(&float_lit(&rf.expr).unwrap())),
                _ => (r.expr(&b.left), r.expr(&b.right)),
            };
            Some(format!("{}({}, {})", name, l, rt))
        }
        Expr::Unary(u) => match u.op {
            UnOp::Neg(_) => {
                r.note("R7 f64 operators -> prelude functions over the denoted reals (rounding ignored)");
                Some(format!("f_neg({})", r.expr(&u.expr)))
            }
            _ => None,
        },
        Expr::Path(p) => {
            let t = norm(r.verb(p.span()));
            match t.as_str() {
                "f64::MAX" => Some("f_maxval()".into()),
                "f64::MIN" => Some("f_minval()".into()),
                _ => None,
            }
        }
        Expr::Call(c) => {
            let t = norm(r.verb(c.func.span()));
            if t == "f64::from" && c.args.len() == 1 {
                r.note("R7 f64::from(x) -> f_from_f64(x)");
                return Some(format!("f_from_f64({})", r.expr(&c.args[0])));
            }
            match t.as_str() {
                "<f64asBound>::max" => Some("f_maxval()".into()),
                "<f64asBound>::min" => Some("f_minval()".into()),
                _ => None,
            }
        }
        Expr::Cast(c) => {
            let ty = norm(r.verb(c.ty.span()));
            if ty == "f64" {
                let from = r.opts.get("cast_from").unwrap_or("usize");
                r.note(format!("R7 `as f64` from {} -> f_from_{}", from, from));
                Some(format!("f_from_{}({})", from, r.expr(&c.expr)))
            } else {
                None
            }
        }
        Expr::MethodCall(mc) => {
            let m = mc.method.to_string();
            let n = mc.args.len();
            let ok = matches!((m.as_str(), n), ("ln", 0) | ("sqrt", 0) | ("abs", 0) | ("ceil", 0) | ("floor", 0) | ("exp", 0) | ("clamp", 2) | ("powf", 1) | ("powi", 1) | ("min", 1) | ("max", 1));
            if !ok {
                return None;
            }
            r.note(format!("R7 f64 method .{}() -> f_{}()", m, m));
            let mut args = vec![r.expr(&mc.receiver)];
            for a in mc.args.iter() {
                args.push(r.expr(a));
            }
            Some(format!("f_{}({})", m, args.join(", ")))
        }
        _ => None,
    }
}
