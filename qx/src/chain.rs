//! R2: iterator chains over random-access sources -> the `while` loop that is the std definition of
//! the terminal adapter, with the real closure bodies inlined.  R3: Option combinators -> `match`.

use crate::R;
use syn::spanned::Spanned;
use syn::{Expr, Pat};

#[derive(Clone, Debug)]
pub enum Elem {
    /// a place expression (`qx_s0[qx_i0]`, `qx_s0[qx_i0].1`, ...)
    Place(String),
    /// an expression that already is a value / reference; bound directly
    Val(String),
    Tuple(Vec<Elem>),
}

struct Call<'e> {
    method: String,
    args: Vec<&'e Expr>,
}

/// flatten `base.m1(a).m2(b)` into (base, [m1, m2])
fn flatten<'e>(e: &'e Expr) -> (&'e Expr, Vec<Call<'e>>) {
    let mut calls = vec![];
    let mut cur = e;
    loop {
        match cur {
            Expr::MethodCall(mc) => {
                calls.push(Call { method: mc.method.to_string(), args: mc.args.iter().collect() });
                cur = &mc.receiver;
            }
            Expr::Paren(p) => cur = &p.expr,
            _ => break,
        }
    }
    calls.reverse();
    (cur, calls)
}

const TERMINALS: &[&str] = &["position", "find", "find_map", "all", "any", "fold", "collect", "for_each"];

struct Seq {
    setup: Vec<String>,
    len: String,
    at: Box<dyn Fn(&str) -> Elem>,
}

fn closure_of<'e>(e: &'e Expr) -> Option<&'e syn::ExprClosure> {
    match e {
        Expr::Closure(c) => Some(c),
        Expr::Paren(p) => closure_of(&p.expr),
        _ => None,
    }
}

/// Builds the random-access description of `base.iter()[.rev()][.zip(..)]`; returns the remaining calls.
fn build_seq<'e, 'c>(r: &R, base: &'e Expr, calls: &'c [Call<'e>], k: usize, sub: usize) -> Option<(Seq, usize)> {
    // calls[0] must be iter / into_iter
    if calls.is_empty() || !(calls[0].method == "iter" || calls[0].method == "into_iter") || !calls[0].args.is_empty() {
        return None;
    }
    let spec = r.opts.loop_spec(k, CUR_TERM.with(|t| t.borrow().clone()).as_str());
    let src_mode_key = if sub == 0 { "src".to_string() } else { format!("src{}", sub) };
    let src_mode = spec.and_then(|s| s.opts.get(&src_mode_key)).map(|s| s.as_str()).unwrap_or("own");
    let sname = if sub == 0 { format!("qx_s{}", k) } else { format!("qx_s{}_{}", k, sub) };
    let base_txt = r.expr(base);
    let mut seq = match src_mode {
        "own" => {
            let s = sname.clone();
            Seq {
                setup: vec![format!("let {} = &({});", sname, base_txt)],
                len: format!("{}.len()", sname),
                at: Box::new(move |i| Elem::Place(format!("{}[{}]", s, i))),
            }
        }
        "ref" => {
            let s = sname.clone();
            Seq {
                setup: vec![format!("let {} = {};", sname, base_txt)],
                len: format!("{}.len()", sname),
                at: Box::new(move |i| Elem::Place(format!("{}[{}]", s, i))),
            }
        }
        "map" => {
            // ordered-map source: prelude supplies qx_len / qx_key / qx_val (assumed contract on BTreeMap::iter)
            let s = sname.clone();
            Seq {
                setup: vec![format!("let {} = &({});", sname, base_txt)],
                len: format!("{}.qx_len()", sname),
                at: Box::new(move |i| {
                    Elem::Tuple(vec![Elem::Val(format!("{}.qx_key({})", s, i)), Elem::Val(format!("{}.qx_val({})", s, i))])
                }),
            }
        }
        "field0" => {
            // newtype around a Vec (`struct Path(Vec<Step>)` with IntoIterator): iterate the wrapped vector
            let s = sname.clone();
            Seq {
                setup: vec![format!("let {} = &(({}).0);", sname, base_txt)],
                len: format!("{}.len()", sname),
                at: Box::new(move |i| Elem::Place(format!("{}[{}]", s, i))),
            }
        }
        v if v.starts_with("via:") => {
            // Deref coercion made explicit: the prelude supplies the accessor (assumed = the Deref impl)
            let s = sname.clone();
            Seq {
                setup: vec![format!("let {} = ({}).{}();", sname, base_txt, &v[4..])],
                len: format!("{}.len()", sname),
                at: Box::new(move |i| Elem::Place(format!("{}[{}]", s, i))),
            }
        }
        other => {
            r.err(format!("unsupported src mode `{}` for loop {}", other, k));
            return None;
        }
    };
    let mut used = 1;
    let mut sub_ctr = sub;
    while used < calls.len() {
        let c = &calls[used];
        match c.method.as_str() {
            "rev" if c.args.is_empty() => {
                let n = if sub == 0 && sub_ctr == 0 { format!("qx_l{}", k) } else { format!("qx_l{}_{}", k, sub_ctr + 10) };
                seq.setup.push(format!("let {} = {};", n, seq.len));
                let inner = seq.at;
                let n2 = n.clone();
                seq.at = Box::new(move |i| inner(&format!("{} - 1 - {}", n2, i)));
                seq.len = n;
                sub_ctr += 1;
            }
            "zip" if c.args.len() == 1 => {
                let (b2, calls2) = flatten(c.args[0]);
                let (s2, used2) = build_seq(r, b2, &calls2, k, sub_ctr + 1)?;
                if used2 != calls2.len() {
                    r.err("unsupported adapter inside zip argument");
                    return None;
                }
                sub_ctr += 2;
                let n = format!("qx_z{}_{}", k, sub_ctr);
                let mut setup = seq.setup;
                setup.extend(s2.setup);
                setup.push(format!("let {n}a = {}; let {n}b = {}; let {n} = if {n}a <= {n}b {{ {n}a }} else {{ {n}b }};", seq.len, s2.len, n = n));
                let a1 = seq.at;
                let a2 = s2.at;
                seq = Seq { setup, len: n, at: Box::new(move |i| Elem::Tuple(vec![a1(i), a2(i)])) };
            }
            _ => break,
        }
        used += 1;
    }
    Some((seq, used))
}

thread_local! { static CUR_TERM: std::cell::RefCell<String> = std::cell::RefCell::new(String::new()); }
thread_local! { static CLONE_ELEMS: std::cell::Cell<bool> = std::cell::Cell::new(false); }

fn bind(r: &R, pat: &Pat, elem: &Elem, copy: bool, out: &mut Vec<String>) {
    match pat {
        Pat::Wild(_) => {}
        Pat::Ident(pi) if pi.subpat.is_none() => {
            let x = pi.ident.to_string();
            let m = if pi.mutability.is_some() { "mut " } else { "" };
            match elem {
                Elem::Place(p) => {
                    if copy && CLONE_ELEMS.with(|c| c.get()) {
                        out.push(format!("let {}{} = {}.clone();", m, x, p))
                    } else if copy {
                        out.push(format!("let {}{} = {};", m, x, p))
                    } else {
                        out.push(format!("let {}{} = &{};", m, x, p))
                    }
                }
                Elem::Val(v) => out.push(format!("let {}{} = {};", m, x, v)),
                Elem::Tuple(es) => {
                    let mut parts = vec![];
                    for e in es {
                        match e {
                            Elem::Place(p) => parts.push(if copy { p.clone() } else { format!("&{}", p) }),
                            Elem::Val(v) => parts.push(v.clone()),
                            Elem::Tuple(_) => {
                                r.err("nested tuple element bound to identifier");
                            }
                        }
                    }
                    out.push(format!("let {}{} = ({});", m, x, parts.join(", ")));
                }
            }
        }
        Pat::Tuple(pt) => {
            for (k, p) in pt.elems.iter().enumerate() {
                let sub = match elem {
                    Elem::Tuple(es) if k < es.len() => es[k].clone(),
                    Elem::Place(pl) => Elem::Place(format!("{}.{}", pl, k)),
                    Elem::Val(v) => Elem::Place(format!("{}.{}", v, k)),
                    _ => {
                        r.err("tuple pattern arity mismatch");
                        return;
                    }
                };
                bind(r, p, &sub, copy, out);
            }
        }
        Pat::Slice(ps) => {
            for (k, p) in ps.elems.iter().enumerate() {
                let sub = match elem {
                    Elem::Place(pl) => Elem::Place(format!("{}[{}]", pl, k)),
                    Elem::Val(v) => Elem::Place(format!("{}[{}]", v, k)),
                    Elem::Tuple(_) => {
                        r.err("slice pattern on tuple element");
                        return;
                    }
                };
                bind(r, p, &sub, copy, out);
            }
        }
        Pat::Reference(pr) => bind(r, &pr.pat, elem, true, out),
        Pat::Paren(pp) => bind(r, &pp.pat, elem, copy, out),
        Pat::Type(pt) => bind(r, &pt.pat, elem, copy, out),
        other => r.err(format!("unsupported closure parameter pattern `{}`", r.verb(other.span()))),
    }
}

/// `?`, `return`, `break`, `continue` in a closure body act on the closure; once the body is inlined into the enclosing
/// function they would act on that function (or loop): such a closure is not inlined (unsupported -> undecided)
pub fn guard_inline(r: &R, c: &syn::ExprClosure) {
    struct Esc(bool);
    impl<'a> syn::visit::Visit<'a> for Esc {
        fn visit_expr_try(&mut self, _: &'a syn::ExprTry) { self.0 = true; }
        fn visit_expr_return(&mut self, _: &'a syn::ExprReturn) { self.0 = true; }
        fn visit_expr_break(&mut self, _: &'a syn::ExprBreak) { self.0 = true; }
        fn visit_expr_continue(&mut self, _: &'a syn::ExprContinue) { self.0 = true; }
        fn visit_expr_closure(&mut self, _: &'a syn::ExprClosure) {}
        fn visit_item(&mut self, _: &'a syn::Item) {}
    }
    let mut e = Esc(false);
    syn::visit::Visit::visit_expr(&mut e, &c.body);
    if e.0 {
        r.err("closure body uses `?` / return / break / continue: inlining it would change control flow (unsupported)");
    }
}

fn closure_body(r: &R, c: &syn::ExprClosure) -> String {
    guard_inline(r, c);
    r.expr(&c.body)
}

pub fn rw_chain(r: &R, e: &Expr) -> Option<String> {
    if r.opts.has_rw("keep_iter") {
        return None; // Kani compiles the real iterator code: no R2
    }
    let mc = match e {
        Expr::MethodCall(mc) => mc,
        _ => return None,
    };
    let mut term = mc.method.to_string();
    // (a bare `.iter()` fragment — the receiver of a fold — is materialised the same way: the sequence of its items)
    let lazy = (term == "map" || term == "iter") && r.opts.has_rw("lazy_as_vec");
    if !TERMINALS.contains(&term.as_str()) && !lazy {
        return None;
    }
    let (base, mut calls) = flatten(e);
    if lazy {
        // a lazy `.map(c)` chain handed to flat_map / returned from a closure is consumed completely: materialise it
        r.note("R2 lazy iterator chain materialised as Vec (consumed completely by the caller's flat_map)");
        calls.push(Call { method: "collect".to_string(), args: vec![] });
        term = "collect".to_string();
    }
    if term == "collect" && calls.len() == 3 && calls[0].method == "into_iter" && calls[1].method == "chain" && calls[1].args.len() == 1 {
        let (b2, c2) = flatten(calls[1].args[0]);
        if c2.len() == 1 && c2[0].method == "into_iter" {
            r.note("R8 a.into_iter().chain(b.into_iter()).collect() -> qx_concat(a, b) (std: concatenation)");
            return Some(format!("qx_concat({}, {})", r.expr(base), r.expr(b2)));
        }
    }
    // locate the innermost iter()/into_iter(): everything before it is part of the base expression
    let src_idx = calls.iter().position(|c| (c.method == "iter" || c.method == "into_iter") && c.args.is_empty())?;
    // the base for the chain is base + calls[..src_idx]; recover it as the receiver of calls[src_idx]
    let mut recv: &Expr = e;
    let real_len = if lazy { calls.len() - 1 } else { calls.len() };
    for _ in 0..(real_len - src_idx) {
        recv = match recv {
            Expr::MethodCall(m) => &m.receiver,
            Expr::Paren(p) => match &*p.expr {
                Expr::MethodCall(m) => &m.receiver,
                _ => return None,
            },
            _ => return None,
        };
    }
    let _ = base;
    let calls = &calls[src_idx..];
    // all calls between source and the terminal must be adapters we know
    let k = r.loop_ctr.get();
    CUR_TERM.with(|t| *t.borrow_mut() = term.clone());
    let spec = match r.opts.loop_spec(k, &term) {
        Some(s) => s.clone(),
        None => {
            r.err(format!("iterator chain `{}` needs a `//@loop {}` section", first_line(r.verb(e.span())), k));
            return Some(format!("qx_missing_loop_spec_{}()", k));
        }
    };
    r.loop_ctr.set(k + 1);
    let (seq, used) = build_seq(r, recv, calls, k, 0)?;
    let copy = spec.opts.get("elem").map(|s| s == "copy" || s == "clone").unwrap_or(false);
    let clone_elems = spec.opts.get("elem").map(|s| s == "clone").unwrap_or(false);
    CLONE_ELEMS.with(|c| c.set(clone_elems));
    let i = format!("qx_i{}", k);
    let n = format!("qx_n{}", k);
    let res = format!("qx_r{}", k);
    let elem = (seq.at)(&i);
    // middle adapters: map / filter / cloned
    let mut pre: Vec<String> = vec![]; // statements at the start of the loop body
    let mut cur = elem;
    let mut guards: Vec<String> = vec![];
    let mut cloned = false;
    let mid = &calls[used..calls.len() - 1];
    for (mi, c) in mid.iter().enumerate() {
        match c.method.as_str() {
            "map" if c.args.len() == 1 => {
                let cl = match closure_of(c.args[0]) {
                    Some(c) => c,
                    None => {
                        r.err("map adapter with a non-closure argument");
                        return None;
                    }
                };
                if cl.inputs.len() != 1 {
                    r.err("map closure arity");
                    return None;
                }
                bind(r, &cl.inputs[0], &cur, copy, &mut pre);
                let v = format!("qx_m{}_{}", k, mi);
                pre.push(format!("let {} = {};", v, closure_body(r, cl)));
                cur = Elem::Val(v);
            }
            "filter" if c.args.len() == 1 => {
                let cl = closure_of(c.args[0])?;
                let mut b = vec![];
                bind(r, &cl.inputs[0], &cur, copy, &mut b);
                // filter's closure sees a reference to the item; bindings above are references already
                pre.extend(b);
                guards.push(closure_body(r, cl));
            }
            "cloned" | "copied" if c.args.is_empty() => cloned = true,
            other => {
                r.err(format!("unsupported iterator adapter `.{}()`", other));
                return None;
            }
        }
    }
    if let Some(ps) = spec.opts.get("pstart") {
        pre.insert(0, format!("proof {{ {} }}", ps));
    }
    let tc = calls.last().unwrap();
    let auto_inv = format!("{i} <= {n}", i = i, n = n);
    let inv_user = spec.inv.trim_end().to_string();
    let mut s = String::new();
    s.push_str("({\n");
    for st in &seq.setup {
        s.push_str(&format!("    {}\n", st));
    }
    s.push_str(&format!("    let {} = {};\n    let mut {}: usize = 0;\n", n, seq.len, i));
    let pbefore = spec.opts.get("pbefore").map(|t| format!("proof {{ {} }}\n    ", t)).unwrap_or_default();
    let loop_attr_s = format!("{}#[verifier::loop_isolation(false)]", pbefore);
    let loop_attr = loop_attr_s.as_str();
    let pafter = spec.opts.get("pafter").map(|t| format!("proof {{ {} }}\n    ", t)).unwrap_or_default();
    let pend = spec.opts.get("pend").map(|t| format!("        proof {{ {} }}\n", t)).unwrap_or_default();
    let cond_all = |g: &Vec<String>, body: String| -> String {
        if g.is_empty() {
            body
        } else {
            format!("({}) && ({})", g.join(") && ("), body)
        }
    };
    r.note(format!("R2 iterator-chain .{}() -> while loop", term));
    match term.as_str() {
        "all" | "any" => {
            let cl = closure_of(tc.args[0])?;
            let mut b = pre.clone();
            bind(r, &cl.inputs[0], &cur, copy, &mut b);
            let body = cond_all(&guards, closure_body(r, cl));
            let (init, test, setv) = if term == "all" { ("true", format!("!({})", body), "false") } else { ("false", body.clone(), "true") };
            let stop = if term == "all" { format!("{}", res) } else { format!("!{}", res) };
            s.push_str(&format!("    let mut {}: bool = {};\n", res, init));
            s.push_str(&format!(
                "    {attr}\n    while {stop} && {i} < {n}\n        invariant {auto},\n{inv}\n        decreases ({n} - {i}) + (if {stop} {{ 1int }} else {{ 0int }}),\n    {{\n",
                attr = loop_attr, stop = stop, i = i, n = n, auto = auto_inv, inv = inv_user
            ));
            for l in &b {
                s.push_str(&format!("        {}\n", l));
            }
            s.push_str(&format!("        if {} {{ {} = {}; }} else {{ {} = {} + 1; }}\n    }}\n    {}\n}})", test, res, setv, i, i, res));
        }
        "position" | "find" => {
            let cl = closure_of(tc.args[0])?;
            let mut b = pre.clone();
            bind(r, &cl.inputs[0], &cur, copy, &mut b);
            let body = cond_all(&guards, closure_body(r, cl));
            let some = if term == "position" {
                i.clone()
            } else {
                match &cur {
                    Elem::Place(p) => {
                        if copy {
                            p.clone()
                        } else {
                            format!("&{}", p)
                        }
                    }
                    Elem::Val(v) => v.clone(),
                    Elem::Tuple(_) => {
                        r.err("find over tuple elements");
                        return None;
                    }
                }
            };
            let rty = spec.opts.get("rty").map(|t| format!(": Option<{}>", t)).unwrap_or_else(|| if term == "position" { ": Option<usize>".into() } else { String::new() });
            s.push_str(&format!("    let mut {}{} = None;\n", res, rty));
            s.push_str(&format!(
                "    {attr}\n    while {res}.is_none() && {i} < {n}\n        invariant {auto},\n{inv}\n        decreases ({n} - {i}) + (if {res}.is_none() {{ 1int }} else {{ 0int }}),\n    {{\n",
                attr = loop_attr, res = res, i = i, n = n, auto = auto_inv, inv = inv_user
            ));
            for l in &b {
                s.push_str(&format!("        {}\n", l));
            }
            s.push_str(&format!("        if {} {{ {} = Some({}); }} else {{ {} = {} + 1; }}\n    }}\n    {}\n}})", body, res, some, i, i, res));
        }
        "find_map" => {
            // std: the first `Some` the closure returns, `None` when it returns `None` for every element
            let cl = closure_of(tc.args[0])?;
            let mut b = pre.clone();
            bind(r, &cl.inputs[0], &cur, copy, &mut b);
            if !guards.is_empty() {
                r.err("find_map after a filter");
                return None;
            }
            let body = closure_body(r, cl);
            let rty = spec.opts.get("rty").map(|t| format!(": Option<{}>", t)).unwrap_or_default();
            s.push_str(&format!("    let mut {}{} = None;\n", res, rty));
            s.push_str(&format!(
                "    {attr}\n    while {res}.is_none() && {i} < {n}\n        invariant {auto},\n{inv}\n        decreases ({n} - {i}) + (if {res}.is_none() {{ 1int }} else {{ 0int }}),\n    {{\n",
                attr = loop_attr, res = res, i = i, n = n, auto = auto_inv, inv = inv_user
            ));
            for l in &b {
                s.push_str(&format!("        {}\n", l));
            }
            s.push_str(&format!("        let qx_fm = {};\n        if qx_fm.is_some() {{ {} = qx_fm; }} else {{ {} = {} + 1; }}\n    }}\n    {}\n}})", body, res, i, i, res));
        }
        "fold" => {
            let cl = closure_of(tc.args[1])?;
            if cl.inputs.len() != 2 {
                r.err("fold closure arity");
                return None;
            }
            // accumulator: an identifier, or a tuple of identifiers (then the init must be a tuple literal)
            let accs: Vec<String> = match &cl.inputs[0] {
                Pat::Ident(pi) => vec![pi.ident.to_string()],
                Pat::Tuple(pt) if pt.elems.iter().all(|p| matches!(p, Pat::Ident(_))) => pt.elems.iter().map(|p| if let Pat::Ident(pi) = p { pi.ident.to_string() } else { String::new() }).collect(),
                _ => {
                    r.err("fold accumulator must be an identifier or a tuple of identifiers");
                    return None;
                }
            };
            let mut b = pre.clone();
            bind(r, &cl.inputs[1], &cur, copy, &mut b);
            let aty = spec.opts.get("rty").map(|t| format!(": {}", t)).unwrap_or_default();
            if accs.len() == 1 {
                let init = r.expr(tc.args[0]);
                s.push_str(&format!("    let mut {}{} = {};\n", accs[0], aty, init));
            } else {
                let inits: Vec<String> = match tc.args[0] {
                    Expr::Tuple(t) if t.elems.len() == accs.len() => t.elems.iter().map(|e| r.expr(e)).collect(),
                    _ => {
                        r.err("fold with a tuple accumulator needs a tuple literal as initial value");
                        return None;
                    }
                };
                for (a, i0) in accs.iter().zip(inits.iter()) {
                    s.push_str(&format!("    let mut {} = {};\n", a, i0));
                }
            }
            s.push_str(&format!(
                "    {attr}\n    while {i} < {n}\n        invariant {auto},\n{inv}\n        decreases {n} - {i},\n    {{\n",
                attr = loop_attr, i = i, n = n, auto = auto_inv, inv = inv_user
            ));
            for l in &b {
                s.push_str(&format!("        {}\n", l));
            }
            let body = closure_body(r, cl);
            let acc_expr = if accs.len() == 1 { accs[0].clone() } else { format!("({})", accs.join(", ")) };
            let body = if guards.is_empty() { body } else { format!("if ({}) {{ {} }} else {{ {} }}", guards.join(") && ("), body, acc_expr) };
            if accs.len() == 1 {
                s.push_str(&format!("        {} = {};\n", accs[0], body));
            } else {
                s.push_str(&format!("        let qx_t{} = {};\n", k, body));
                for (j, a) in accs.iter().enumerate() {
                    s.push_str(&format!("        {} = qx_t{}.{};\n", a, k, j));
                }
            }
            s.push_str(&pend);
            s.push_str(&format!("        {} = {} + 1;\n    }}\n    {}{}\n}})", i, i, pafter, acc_expr));
        }
        "collect" => {
            let b = pre.clone();
            let item = match &cur {
                Elem::Place(p) => {
                    if cloned {
                        format!("{}.clone()", p)
                    } else if copy {
                        p.clone()
                    } else {
                        format!("&{}", p)
                    }
                }
                Elem::Val(v) => {
                    if cloned {
                        format!("{}.clone()", v)
                    } else {
                        v.clone()
                    }
                }
                Elem::Tuple(_) => {
                    r.err("collect over tuple elements");
                    return None;
                }
            };
            let rty = spec.opts.get("rty").map(|t| format!(": {}", t)).unwrap_or_default();
            if spec.opts.get("result").is_some() {
                // `.collect::<Result<Vec<_>, E>>()` (std: FromIterator for Result): the items are Results; the first Err stops the
                // iteration and is the result, otherwise Ok(the Vec of the Ok payloads, in order)
                if !guards.is_empty() {
                    r.err("collect into Result with a filter adapter");
                    return None;
                }
                r.note("R2c .collect::<Result<Vec<_>, E>>() -> while loop stopping at the first Err");
                let ety = spec.opts.get("ety").map(|t| format!(": Option<{}>", t)).unwrap_or_default();
                s.push_str(&format!("    let mut {}{} = Vec::new();\n    let mut {}_err{} = None;\n", res, rty, res, ety));
                s.push_str(&format!(
                    "    {attr}\n    while {res}_err.is_none() && {i} < {n}\n        invariant {auto},\n{inv}\n        decreases ({n} - {i}) + (if {res}_err.is_none() {{ 1int }} else {{ 0int }}),\n    {{\n",
                    attr = loop_attr, res = res, i = i, n = n, auto = auto_inv, inv = inv_user
                ));
                for l in &b {
                    s.push_str(&format!("        {}\n", l));
                }
                s.push_str(&format!("        match {} {{ Ok(qx_ok) => {{ {}.push(qx_ok); {} = {} + 1; }} Err(qx_e) => {{ {}_err = Some(qx_e); }} }}\n", item, res, i, i, res));
                s.push_str(&pend);
                s.push_str(&format!("    }}\n    {}match {}_err {{ Some(qx_e) => Err(qx_e), None => Ok({}) }}\n}})", pafter, res, res));
                return Some(s);
            }
            s.push_str(&format!("    let mut {}{} = Vec::new();\n", res, rty));
            s.push_str(&format!(
                "    {attr}\n    while {i} < {n}\n        invariant {auto},\n{inv}\n        decreases {n} - {i},\n    {{\n",
                attr = loop_attr, i = i, n = n, auto = auto_inv, inv = inv_user
            ));
            for l in &b {
                s.push_str(&format!("        {}\n", l));
            }
            if guards.is_empty() {
                s.push_str(&format!("        {}.push({});\n", res, item));
            } else {
                s.push_str(&format!("        if ({}) {{ {}.push({}); }}\n", guards.join(") && ("), res, item));
            }
            let fin = match spec.opts.get("into") {
                Some(f) => format!("{}({})", f, res),
                None => res.clone(),
            };
            s.push_str(&pend);
            s.push_str(&format!("        {} = {} + 1;\n    }}\n    {}{}\n}})", i, i, pafter, fin));
        }
        other => {
            r.err(format!("unsupported terminal `.{}()`", other));
            return None;
        }
    }
    Some(s)
}

/// R2b: `for PAT in EXPR { BODY }` over a Vec-like source -> indexed while loop (std: IntoIterator for Vec yields the
/// elements in order); BODY is copied verbatim and must not contain break / continue.
pub fn rw_for(r: &R, e: &Expr) -> Option<String> {
    let fl = match e {
        Expr::ForLoop(f) => f,
        _ => return None,
    };
    if r.opts.has_rw("keep_iter") {
        return None;
    }
    struct BC(bool);
    impl<'a> syn::visit::Visit<'a> for BC {
        fn visit_expr_break(&mut self, _: &'a syn::ExprBreak) { self.0 = true; }
        fn visit_expr_continue(&mut self, _: &'a syn::ExprContinue) { self.0 = true; }
    }
    let mut bc = BC(false);
    syn::visit::Visit::visit_block(&mut bc, &fl.body);
    if bc.0 {
        r.err("for loop with break/continue is not supported");
        return None;
    }
    let k = r.loop_ctr.get();
    CUR_TERM.with(|t| *t.borrow_mut() = "for".to_string());
    let spec = match r.opts.loop_spec(k, "for") {
        Some(s) => s.clone(),
        None => {
            r.err(format!("for loop needs a `//@loop {}` section", k));
            return Some(format!("qx_missing_loop_spec_{}()", k));
        }
    };
    r.loop_ctr.set(k + 1);
    // source: treat `EXPR` as `EXPR.into_iter()`
    let calls = vec![Call { method: "into_iter".to_string(), args: vec![] }];
    let (seq, _) = build_seq(r, &fl.expr, &calls, k, 0)?;
    let copy = spec.opts.get("elem").map(|s| s == "copy" || s == "clone").unwrap_or(false);
    CLONE_ELEMS.with(|c| c.set(spec.opts.get("elem").map(|s| s == "clone").unwrap_or(false)));
    let i = format!("qx_i{}", k);
    let n = format!("qx_n{}", k);
    let mut binds = vec![];
    bind(r, &fl.pat, &(seq.at)(&i), copy, &mut binds);
    r.note("R2b for loop over a Vec-like source -> indexed while loop");
    let mut s = String::new();
    s.push_str("{\n");
    for st in &seq.setup {
        s.push_str(&format!("    {}\n", st));
    }
    s.push_str(&format!("    let {} = {};\n    let mut {}: usize = 0;\n", n, seq.len, i));
    if let Some(pb) = spec.opts.get("pbefore") {
        s.push_str(&format!("    proof {{ {} }}\n", pb));
    }
    s.push_str(&format!("    #[verifier::loop_isolation(false)]\n    while {i} < {n}\n        invariant {i} <= {n},\n{inv}\n        decreases {n} - {i},\n    {{\n", i = i, n = n, inv = spec.inv.trim_end()));
    if let Some(ps) = spec.opts.get("pstart") {
        s.push_str(&format!("        proof {{ {} }}\n", ps));
    }
    for b in &binds {
        s.push_str(&format!("        {}\n", b));
    }
    s.push_str(&format!("        {}\n", r.block(&fl.body)));
    if let Some(pe) = spec.opts.get("pend") {
        s.push_str(&format!("        proof {{ {} }}\n", pe));
    }
    s.push_str(&format!("        {} = {} + 1;\n    }}\n", i, i));
    if let Some(pa) = spec.opts.get("pafter") {
        s.push_str(&format!("    proof {{ {} }}\n", pa));
    }
    s.push_str("}");
    Some(s)
}

/// R3b: `OPT.map(|p| BODY).transpose()?` where BODY is a Result: the closure's own `?`s make the closure return Err, which
/// transpose()? then returns from the function — the same as `match OPT { Some(p) => Some(BODY?), None => None }` with the
/// `?`s of BODY acting on the function directly.
pub fn rw_map_transpose(r: &R, e: &Expr) -> Option<String> {
    if !r.opts.has_rw("opt_closure") {
        return None;
    }
    let t = match e {
        Expr::Try(t) => t,
        _ => return None,
    };
    let tr = match &*t.expr {
        Expr::MethodCall(m) if m.method == "transpose" && m.args.is_empty() => m,
        _ => return None,
    };
    let mp = match &*tr.receiver {
        Expr::MethodCall(m) if m.method == "map" && m.args.len() == 1 => m,
        _ => return None,
    };
    let cl = closure_of(&mp.args[0])?;
    if cl.inputs.len() != 1 {
        return None;
    }
    r.note("R3b Option::map(closure returning Result).transpose()? -> match with the closure body's `?` acting on the function");
    let recv = r.expr(&mp.receiver);
    let p = r.pat(&cl.inputs[0]);
    let b = r.expr(&cl.body);
    Some(format!("(match {} {{ Some({}) => Some(({})?), None => None }})", recv, p, b))
}

fn norm_ws(s: &str) -> String { s.chars().filter(|c| !c.is_whitespace()).collect() }

fn first_line(s: &str) -> String {
    s.lines().next().unwrap_or("").to_string()
}

/// R3: Option combinators -> match (std definitions)
pub fn rw_option(r: &R, e: &Expr) -> Option<String> {
    let mc = match e {
        Expr::MethodCall(mc) => mc,
        _ => return None,
    };
    let m = mc.method.to_string();
    match m.as_str() {
        "unwrap_or" if mc.args.len() == 1 && r.opts.has_rw("unwrap_or") => {
            r.note("R3 unwrap_or -> match");
            let recv = r.expr(&mc.receiver);
            let d = r.expr(&mc.args[0]);
            Some(format!("(match {} {{ Some(qx_v) => qx_v, None => {} }})", recv, d))
        }
        "unwrap_or" if mc.args.len() == 1 && r.opts.has_rw("unwrap_or_result") => {
            r.note("R3 Result::unwrap_or -> match");
            let recv = r.expr(&mc.receiver);
            let d = r.expr(&mc.args[0]);
            Some(format!("(match {} {{ Ok(qx_v) => qx_v, Err(_) => {} }})", recv, d))
        }
        // R3b (rw=res_closure): the same for Result — map(f) / map(|x| b) / or_else(|e| b), std definitions
        "map" if mc.args.len() == 1 && r.opts.has_rw("res_closure") && matches!(&mc.args[0], Expr::Path(_)) => {
            r.note("R3b Result::map(path) -> match");
            let recv = r.expr(&mc.receiver);
            let f = r.expr(&mc.args[0]);
            Some(format!("(match {} {{ Ok(qx_v) => Ok({}(qx_v)), Err(qx_e) => Err(qx_e) }})", recv, f))
        }
        "map" | "or_else" | "and_then" if mc.args.len() == 1 && r.opts.has_rw("res_closure") => {
            let cl = closure_of(&mc.args[0])?;
            guard_inline(r, cl);
            if cl.inputs.len() != 1 {
                return None;
            }
            r.note(format!("R3b Result::{} -> match", m));
            let recv = r.expr(&mc.receiver);
            let p = r.pat(&cl.inputs[0]);
            let b = r.expr(&cl.body);
            if m == "map" {
                Some(format!("(match {} {{ Ok({}) => Ok({}), Err(qx_e) => Err(qx_e) }})", recv, p, b))
            } else if m == "and_then" {
                Some(format!("(match {} {{ Ok({}) => {}, Err(qx_e) => Err(qx_e) }})", recv, p, b))
            } else {
                Some(format!("(match {} {{ Ok(qx_v) => Ok(qx_v), Err({}) => {} }})", recv, p, b))
            }
        }
        "map" if mc.args.len() == 1 && r.opts.has_rw("opt_closure") && matches!(&mc.args[0], Expr::Path(_)) => {
            // Option::map(f) with a function path: Some(v) => Some(f(v))
            r.note("R3 Option::map(path) -> match");
            let recv = r.expr(&mc.receiver);
            let f = r.expr(&mc.args[0]);
            Some(format!("(match {} {{ Some(qx_v) => Some({}(qx_v)), None => None }})", recv, f))
        }
        "and_then" | "map" if mc.args.len() == 1 && r.opts.has_rw("opt_closure") => {
            let cl = closure_of(&mc.args[0])?;
            guard_inline(r, cl);
            if cl.inputs.len() != 1 {
                return None;
            }
            r.note(format!("R3 Option::{} -> match", m));
            let recv = r.expr(&mc.receiver);
            let p = r.pat(&cl.inputs[0]);
            let b = r.expr(&cl.body);
            if m == "map" {
                Some(format!("(match {} {{ Some({}) => Some({}), None => None }})", recv, p, b))
            } else {
                Some(format!("(match {} {{ Some({}) => {}, None => None }})", recv, p, b))
            }
        }
        "or_else" if mc.args.len() == 1 && r.opts.has_rw("opt_closure") => {
            let cl = closure_of(&mc.args[0])?;
            guard_inline(r, cl);
            if !cl.inputs.is_empty() {
                return None;
            }
            r.note("R3 Option::or_else -> match");
            let recv = r.expr(&mc.receiver);
            let b = r.expr(&cl.body);
            Some(format!("(match {} {{ Some(qx_v) => Some(qx_v), None => {} }})", recv, b))
        }
        "unwrap_or_else" if mc.args.len() == 1 && r.opts.has_rw("unwrap_or_else") => {
            let cl = closure_of(&mc.args[0])?;
            guard_inline(r, cl);
            if !cl.inputs.is_empty() {
                return None;
            }
            r.note("R3 Option::unwrap_or_else -> match");
            let recv = r.expr(&mc.receiver);
            let b = r.expr(&cl.body);
            Some(format!("(match {} {{ Some(qx_v) => qx_v, None => {} }})", recv, b))
        }
        "then_some" if mc.args.len() == 1 && r.opts.has_rw("opt_closure") => {
            r.note("R3 bool::then_some -> if/else");
            let recv = r.expr(&mc.receiver);
            let v = r.expr(&mc.args[0]);
            Some(format!("(if {} {{ Some({}) }} else {{ None }})", recv, v))
        }
        "map_or" if mc.args.len() == 2 && r.opts.has_rw("opt_closure") => {
            let cl = closure_of(&mc.args[1])?;
            guard_inline(r, cl);
            r.note("R3 Option::map_or -> match");
            let recv = r.expr(&mc.receiver);
            let d = r.expr(&mc.args[0]);
            let p = r.pat(&cl.inputs[0]);
            let b = r.expr(&cl.body);
            // `map_or_result="<receiver text>|..."`: receivers that are Results (std: Result::map_or(default, f) = match { Ok(v) => f(v), Err(_) => default })
            let recv_src = norm_ws(&r.verb(mc.receiver.span()));
            let is_result = r.opts.get("map_or_result").map(|l| l == "*" || l.split('|').any(|t| norm_ws(t) == recv_src)).unwrap_or(false);
            if is_result {
                r.note("R3 Result::map_or -> match");
                return Some(format!("(match {} {{ Ok({}) => {}, Err(_) => {} }})", recv, p, b, d));
            }
            Some(format!("(match {} {{ Some({}) => {}, None => {} }})", recv, p, b, d))
        }
        _ => None,
    }
}
