//! Fragment extraction: closure bodies, match arms, let initialisers, call arguments of a real function
//! become stand-alone functions whose header (parameters + contract) is written in the unit template.
//! qx checks that every free lower-case identifier of the fragment is a parameter of the header.

use crate::{FnRef, R};
use proc_macro2::Span;
use std::collections::HashSet;
use syn::spanned::Spanned;
use syn::visit::{self, Visit};
use syn::{Expr, Pat};

fn norm(s: &str) -> String {
    s.chars().filter(|c| !c.is_whitespace()).collect()
}

struct CallFinder<'a> {
    name: String,
    hits: Vec<&'a Expr>,
}

fn callee_name(e: &Expr) -> Option<String> {
    match e {
        Expr::MethodCall(m) => Some(m.method.to_string()),
        Expr::Call(c) => match &*c.func {
            Expr::Path(p) => {
                let segs: Vec<String> = p.path.segments.iter().map(|s| s.ident.to_string()).collect();
                Some(segs.join("::"))
            }
            _ => None,
        },
        _ => None,
    }
}

impl<'a> Visit<'a> for CallFinder<'a> {
    fn visit_expr(&mut self, e: &'a Expr) {
        if let Some(n) = callee_name(e) {
            if n == self.name || n.ends_with(&format!("::{}", self.name)) {
                self.hits.push(e);
            }
        }
        visit::visit_expr(self, e);
    }
    fn visit_macro(&mut self, m: &'a syn::Macro) {
        let _ = m;
    }
}

fn leak_expr(e: Expr) -> &'static Expr { Box::leak(Box::new(e)) }

struct MatchFinder<'a> {
    hits: Vec<&'a syn::ExprMatch>,
}
impl<'a> Visit<'a> for MatchFinder<'a> {
    fn visit_expr_match(&mut self, m: &'a syn::ExprMatch) {
        self.hits.push(m);
        visit::visit_expr_match(self, m);
    }
    // a `match` passed to a macro as an argument (e.g. the fallback block of `for_all_variant_pairs!(…, { match (self, other) { … } })`):
    // when the macro's arguments parse as a comma-separated list of expressions they are searched too (the source bytes of
    // the arm are copied all the same; that the macro evaluates this argument is stated in the unit)
    fn visit_macro(&mut self, m: &'a syn::Macro) {
        if let Ok(args) = m.parse_body_with(syn::punctuated::Punctuated::<Expr, syn::Token![,]>::parse_terminated) {
            let leaked: &'static Vec<Expr> = Box::leak(Box::new(args.into_iter().collect()));
            for e in leaked.iter() {
                self.visit_expr(e);
            }
        }
    }
}

struct LetFinder<'a> {
    name: String,
    hits: Vec<&'a syn::Local>,
}
impl<'a> Visit<'a> for LetFinder<'a> {
    fn visit_local(&mut self, l: &'a syn::Local) {
        let mut ids = vec![];
        pat_idents(&l.pat, &mut ids);
        if ids.len() == 1 && ids[0] == self.name {
            self.hits.push(l);
        }
        visit::visit_local(self, l);
    }
}

pub fn pat_idents(p: &Pat, out: &mut Vec<String>) {
    struct V<'o>(&'o mut Vec<String>);
    impl<'a, 'o> Visit<'a> for V<'o> {
        fn visit_pat_ident(&mut self, pi: &'a syn::PatIdent) {
            self.0.push(pi.ident.to_string());
            if let Some((_, sp)) = &pi.subpat {
                self.visit_pat(sp);
            }
        }
    }
    V(out).visit_pat(p);
}

/// free lower-case single-segment identifiers used as values in `e`
fn free_idents(e: &Expr) -> HashSet<String> {
    struct V {
        used: HashSet<String>,
        bound: HashSet<String>,
    }
    impl<'a> Visit<'a> for V {
        fn visit_expr_path(&mut self, p: &'a syn::ExprPath) {
            if p.qself.is_none() && p.path.segments.len() == 1 {
                let id = p.path.segments[0].ident.to_string();
                if id.chars().next().map(|c| c.is_lowercase() || c == '_').unwrap_or(false) {
                    self.used.insert(id);
                }
            }
        }
        fn visit_expr_call(&mut self, c: &'a syn::ExprCall) {
            // function position: a plain identifier there is a function name, not a variable
            if !matches!(&*c.func, Expr::Path(_)) {
                self.visit_expr(&c.func);
            }
            for a in &c.args {
                self.visit_expr(a);
            }
        }
        fn visit_pat_ident(&mut self, pi: &'a syn::PatIdent) {
            self.bound.insert(pi.ident.to_string());
        }
        fn visit_macro(&mut self, m: &'a syn::Macro) {
            if let Ok(args) = m.parse_body_with(syn::punctuated::Punctuated::<Expr, syn::Token![,]>::parse_terminated) {
                for a in args.iter() {
                    self.visit_expr(a);
                }
            }
        }
    }
    let mut v = V { used: HashSet::new(), bound: HashSet::new() };
    v.visit_expr(e);
    v.used.difference(&v.bound).cloned().collect()
}

/// parameter names declared by a header `fn name(a: T, b: U) -> ...`
fn header_params(header: &str) -> Vec<String> {
    let open = match header.find('(') {
        Some(i) => i,
        None => return vec![],
    };
    let mut depth = 0;
    let mut cur = String::new();
    let mut params = vec![];
    for ch in header[open..].chars() {
        match ch {
            '(' | '<' | '[' => {
                depth += 1;
                if depth > 1 {
                    cur.push(ch)
                }
            }
            ')' | '>' | ']' => {
                depth -= 1;
                if depth == 0 {
                    params.push(std::mem::take(&mut cur));
                    break;
                }
                cur.push(ch)
            }
            ',' if depth == 1 => params.push(std::mem::take(&mut cur)),
            _ => cur.push(ch),
        }
    }
    params
        .iter()
        .filter_map(|p| p.split(':').next().map(|s| s.trim().trim_start_matches("mut ").trim_start_matches("Ghost(").trim_start_matches("Tracked(").trim_end_matches(')').trim().to_string()))
        .filter(|s| !s.is_empty())
        .collect()
}

fn parse_ord(s: &str) -> (String, usize) {
    match s.rsplit_once('#') {
        Some((a, b)) => (a.trim().to_string(), b.trim().parse().unwrap_or(0)),
        None => (s.trim().to_string(), 0),
    }
}

/// returns (text, span of the original fragment)
pub fn render_frag(r: &R, fr: FnRef, sel: &str, header: &str) -> Result<(String, Span), String> {
    let sel = sel.trim();
    let block = fr.block();
    let (kind, rest) = sel.split_once(' ').unwrap_or((sel, ""));
    if kind == "prefix" {
        // prefix <n>: the first n statements of the function body, lifted to a function that returns `epilogue=`
        // (a variable the statements define); a statement that starts using a variable the header does not declare no
        // longer compiles, which ends undecided — not a silent pass
        let n: usize = rest.trim().parse().map_err(|_| "bad prefix selector")?;
        if block.stmts.len() < n || n == 0 {
            return Err(format!("lost anchor: the function has {} statements, prefix {} asked", block.stmts.len(), n));
        }
        let ep = r.opts.get("epilogue").ok_or("prefix fragment needs epilogue=")?;
        if let Some(sa) = r.opts.get("self_as") {
            r.renames.borrow_mut().insert("self".into(), sa.to_string());
        }
        let body: Vec<String> = block.stmts[..n].iter().map(|st| r.stmt(st)).collect();
        r.renames.borrow_mut().remove("self");
        r.note(format!("fragment `{}` (the first {} statements) lifted to a function", sel, n));
        let mut s = String::new();
        s.push_str(header.trim_end());
        s.push_str("\n{\n");
        if let Some(pb) = r.opts.get("proof_before") {
            s.push_str(&format!("    proof {{ {} }}\n", pb));
        }
        for b in &body {
            s.push_str(&format!("    {}\n", b));
        }
        if let Some(pa) = r.opts.get("proof_after") {
            s.push_str(&format!("    proof {{ {} }}\n", pa));
        }
        s.push_str(&format!("    {}\n}}", ep));
        return Ok((s, block.stmts[0].span()));
    }
    let mut lets: Vec<String> = vec![];
    let frag: &Expr = match kind {
        "receiver" => {
            // receiver <method>#<n> : the receiver of the n-th call of that method (source order) — what a fold / map / filter
            // at the end of a chain iterates over
            let (callee, ord) = parse_ord(rest); let callee = callee.replace('~', "::");
            let mut cf = CallFinder { name: callee.clone(), hits: vec![] };
            cf.visit_block(block);
            cf.hits.sort_by_key(|e| match e {
                Expr::MethodCall(m) => m.method.span().byte_range().start,
                Expr::Call(c) => c.func.span().byte_range().end,
                _ => 0,
            });
            match cf.hits.get(ord) {
                Some(Expr::MethodCall(m)) => &*m.receiver,
                _ => return Err(format!("lost anchor: method call `{}`#{} not found ({} hits)", callee, ord, cf.hits.len())),
            }
        }
        "closure" | "callarg" => {
            // closure <callee>#<n>/<arg>
            let (callee_ord, arg) = rest.rsplit_once('/').ok_or("bad closure selector")?;
            let (callee, ord) = parse_ord(callee_ord); let callee = callee.replace('~', "::");
            let argi: usize = arg.trim().parse().map_err(|_| "bad arg index")?;
            let mut cf = CallFinder { name: callee.clone(), hits: vec![] };
            cf.visit_block(block);
            // ordinals follow source order of the callee name (not the nesting order of method chains)
            cf.hits.sort_by_key(|e| match e {
                Expr::MethodCall(m) => m.method.span().byte_range().start,
                Expr::Call(c) => c.func.span().byte_range().end,
                _ => 0,
            });
            let call = cf.hits.get(ord).ok_or_else(|| format!("lost anchor: call `{}`#{} not found ({} hits)", callee, ord, cf.hits.len()))?;
            let args: Vec<&Expr> = match call {
                Expr::MethodCall(m) => m.args.iter().collect(),
                Expr::Call(c) => c.args.iter().collect(),
                _ => vec![],
            };
            let a = args.get(argi).ok_or_else(|| format!("lost anchor: call `{}`#{} has no argument {}", callee, ord, argi))?;
            if kind == "closure" {
                let cl = match a {
                    Expr::Closure(c) => c,
                    _ => return Err(format!("lost anchor: argument {} of `{}`#{} is not a closure", argi, callee, ord)),
                };
                // closure parameters: plain identifiers keep their names; patterns are bound from qx_a<k>
                for (k, p) in cl.inputs.iter().enumerate() {
                    let p0 = match p {
                        Pat::Type(pt) => &*pt.pat,
                        other => other,
                    };
                    match p0 {
                        Pat::Ident(_) | Pat::Wild(_) => {}
                        Pat::Reference(pr) if matches!(&*pr.pat, Pat::Ident(_)) => {
                            // |&x| : header declares x by value
                        }
                        Pat::Reference(pr) => {
                            // |&(a, b)| binds through the reference: the same as `let (a, b) = *arg;`
                            r.note("R5 closure parameter pattern `&(..)` -> `let (..) = *arg`");
                            lets.push(format!("let {} = *qx_a{};", r.pat(&pr.pat), k))
                        }
                        other => lets.push(format!("let {} = qx_a{};", r.pat(other), k)),
                    }
                }
                &cl.body
            } else {
                a
            }
        }
        "arm" => {
            // arm <scrutinee-prefix> / <pattern>
            let rest = rest.replace('~', "::");
            let (scrut, pat) = rest.split_once(" / ").ok_or("bad arm selector")?;
            let (scrut, ord) = parse_ord(scrut);
            let mut mf = MatchFinder { hits: vec![] };
            mf.visit_block(block);
            let cands: Vec<&&syn::ExprMatch> = mf.hits.iter().filter(|m| norm(r.verb(m.expr.span())).starts_with(&norm(&scrut))).collect();
            let m = cands.get(ord).ok_or_else(|| format!("lost anchor: match on `{}`#{} not found", scrut, ord))?;
            // a selector `<pattern> if <guard>` names the guarded arm; a bare `<pattern>` names the arm without a guard
            let arms: Vec<&syn::Arm> = m.arms.iter().filter(|a| match &a.guard {
                Some((_, g)) => norm(&format!("{} if {}", r.verb(a.pat.span()), r.verb(g.span()))) == norm(pat),
                None => norm(r.verb(a.pat.span())) == norm(pat),
            }).collect();
            // (a bare pattern that names no unguarded arm may still name a single guarded one)
            let arms: Vec<&syn::Arm> = if arms.is_empty() { m.arms.iter().filter(|a| norm(r.verb(a.pat.span())) == norm(pat)).collect() } else { arms };
            if arms.len() != 1 {
                return Err(format!("lost anchor: {} arms with pattern `{}`", arms.len(), pat));
            }
            &arms[0].body
        }
        "match" => {
            // match <scrutinee-prefix>[#n] : the whole `match` expression (arms in their order: first-match semantics is part of what
            // the contract pins down)
            let rest = rest.replace('~', "::");
            let (scrut, ord) = parse_ord(&rest);
            let mut mf = MatchFinder { hits: vec![] };
            mf.visit_block(block);
            let cands: Vec<&&syn::ExprMatch> = mf.hits.iter().filter(|m| norm(r.verb(m.expr.span())).starts_with(&norm(&scrut))).collect();
            let m = cands.get(ord).ok_or_else(|| format!("lost anchor: match on `{}`#{} not found", scrut, ord))?;
            leak_expr(Expr::Match((**m).clone()))
        }
        "let" => {
            let (name, ord) = parse_ord(rest);
            let mut lf = LetFinder { name: name.clone(), hits: vec![] };
            lf.visit_block(block);
            let l = lf.hits.get(ord).ok_or_else(|| format!("lost anchor: let `{}`#{} not found", name, ord))?;
            match &l.init {
                Some(init) => &init.expr,
                None => return Err(format!("lost anchor: let `{}` has no initialiser", name)),
            }
        }
        "const" => {
            // const <name>[#n] : the initialiser of a `const NAME: T = …;` item declared inside the function body
            let (name, ord) = parse_ord(rest);
            struct CF<'a> { name: String, hits: Vec<&'a syn::ItemConst> }
            impl<'a> Visit<'a> for CF<'a> {
                fn visit_item_const(&mut self, c: &'a syn::ItemConst) {
                    if c.ident == self.name { self.hits.push(c); }
                }
            }
            let mut cf = CF { name: name.clone(), hits: vec![] };
            cf.visit_block(block);
            let c = cf.hits.get(ord).ok_or_else(|| format!("lost anchor: const `{}`#{} not found", name, ord))?;
            &c.expr
        }
        "ifcond" => {
            // ifcond <name>[#n] : the condition of the `if` that initialises `let <name> = if COND { … } else { … };`
            let (name, ord) = parse_ord(rest);
            let mut lf = LetFinder { name: name.clone(), hits: vec![] };
            lf.visit_block(block);
            let l = lf.hits.get(ord).ok_or_else(|| format!("lost anchor: let `{}`#{} not found", name, ord))?;
            match l.init.as_ref().map(|i| &*i.expr) {
                Some(Expr::If(ei)) => &ei.cond,
                _ => return Err(format!("lost anchor: let `{}` is not initialised by an `if`", name)),
            }
        }
        "letclosure" => {
            // letclosure <name>[#n] : the body of a closure bound by `let <name> = [move] |params| body`
            let (name, ord) = parse_ord(rest);
            let mut lf = LetFinder { name: name.clone(), hits: vec![] };
            lf.visit_block(block);
            let l = lf.hits.get(ord).ok_or_else(|| format!("lost anchor: let `{}`#{} not found", name, ord))?;
            let cl = match l.init.as_ref().map(|i| &*i.expr) {
                Some(Expr::Closure(c)) => c,
                _ => return Err(format!("lost anchor: let `{}` is not bound to a closure", name)),
            };
            for (k, p) in cl.inputs.iter().enumerate() {
                let p0 = match p {
                    Pat::Type(pt) => &*pt.pat,
                    other => other,
                };
                match p0 {
                    Pat::Ident(_) | Pat::Wild(_) => {}
                    other => lets.push(format!("let {} = qx_a{};", r.pat(other), k)),
                }
            }
            &cl.body
        }
        "tail" => match block.stmts.last() {
            Some(syn::Stmt::Expr(e, None)) => e,
            _ => return Err("lost anchor: function has no tail expression".into()),
        },
        other => return Err(format!("unsupported fragment selector kind `{}`", other)),
    };
    // free-variable discipline
    let params: HashSet<String> = header_params(header).into_iter().collect();
    let mut bound_by_lets = vec![];
    if kind == "closure" || kind == "letclosure" {
        // names bound by destructuring lets
        for l in &lets {
            if let Ok(syn::Stmt::Local(loc)) = syn::parse_str::<syn::Stmt>(l) {
                pat_idents(&loc.pat, &mut bound_by_lets);
            }
        }
    }
    let allowed_extra: HashSet<String> = r.opts.get("globals").map(|s| s.split(',').map(|x| x.to_string()).collect()).unwrap_or_default();
    let mut missing: Vec<String> = free_idents(frag)
        .into_iter()
        .filter(|id| !params.contains(id) && !bound_by_lets.contains(id) && !allowed_extra.contains(id) && id != "self")
        .collect();
    missing.sort();
    // R16: a local the fragment depends on that the header does not declare is carried into the lifted function when it is an
    // immutable `let <name> = <init>;` of the same function placed before the fragment and its initialiser (transitively) only
    // uses declared parameters — evaluating it at the start of the lifted function is what the real code does (a hoisted
    // sub-expression stays part of the fragment instead of losing the anchor)
    if let Some(sa) = r.opts.get("self_as") {
        r.renames.borrow_mut().insert("self".into(), sa.to_string());
    }
    let mut carried: Vec<String> = vec![];
    {
        let frag_start = frag.span().start();
        let mut todo = missing.clone();
        let mut known: HashSet<String> = params.clone();
        for b in &bound_by_lets { known.insert(b.clone()); }
        for g in &allowed_extra { known.insert(g.clone()); }
        let mut guard = 0;
        let mut unresolved: Vec<String> = vec![];
        let mut defs: Vec<(String, &syn::Local)> = vec![];
        while let Some(name) = todo.pop() {
            guard += 1;
            if guard > 32 { unresolved.push(name); break; }
            if known.contains(&name) { continue; }
            let mut lf = LetFinder { name: name.clone(), hits: vec![] };
            lf.visit_block(block);
            let cand = lf.hits.iter().filter(|l| { let e = l.span().end(); (e.line, e.column) <= (frag_start.line, frag_start.column) }).last();
            let ok = match cand {
                Some(l) => matches!(&l.pat, Pat::Ident(pi) if pi.mutability.is_none() && pi.by_ref.is_none()) || matches!(&l.pat, Pat::Type(pt) if matches!(&*pt.pat, Pat::Ident(pi) if pi.mutability.is_none())),
                None => false,
            };
            match (ok, cand.and_then(|l| l.init.as_ref())) {
                (true, Some(init)) if init.diverge.is_none() => {
                    known.insert(name.clone());
                    for id in free_idents(&init.expr) { if !known.contains(&id) && id != "self" { todo.push(id); } }
                    defs.push((name, cand.unwrap()));
                }
                _ => unresolved.push(name),
            }
        }
        if unresolved.is_empty() && !missing.is_empty() {
            // definitions in source order
            defs.sort_by_key(|(_, l)| { let st = l.span().start(); (st.line, st.column) });
            for (name, l) in &defs {
                r.note(format!("R16 local `{}` (defined before the fragment from declared parameters) carried into the lifted function", name));
                carried.push(format!("let {} = {};", name, r.expr(&l.init.as_ref().unwrap().expr)));
            }
            missing.clear();
        }
    }
    if !missing.is_empty() {
        r.renames.borrow_mut().remove("self");
        return Err(format!("lost anchor: fragment uses free variables {:?} that the header does not declare", missing));
    }
    let mut body = r.expr(frag);
    if let Some(w) = r.opts.get("wrap") {
        // the fragment is the operand of `W(match … { pat => FRAGMENT, … })` in the real code (e.g. `Ok(match name { … })`):
        // the lifted function returns what the enclosing expression returns for this arm
        r.note(format!("fragment wrapped in the enclosing constructor `{}(…)`", w));
        body = format!("{}({})", w, body);
    }
    r.renames.borrow_mut().remove("self");
    r.note(format!("fragment `{}` lifted to a function (parameters = free variables, checked)", sel));
    let mut s = String::new();
    s.push_str(header.trim_end());
    s.push_str("\n{\n");
    for l in &lets {
        s.push_str("    ");
        s.push_str(l);
        s.push('\n');
    }
    for l in &carried {
        s.push_str("    ");
        s.push_str(l);
        s.push('\n');
    }
    if let Some(pb) = r.opts.get("proof_before") {
        s.push_str(&format!("    proof {{ {} }}\n", pb));
    }
    if let Some(pl) = r.opts.get("prologue") {
        s.push_str(&format!("    {}\n", pl));
    }
    if let Some(ep) = r.opts.get("epilogue") {
        // statement-like fragment (assignments to the declared state): run it, then return the state
        s.push_str(&format!("    {};\n", body));
        if let Some(pa) = r.opts.get("proof_after") {
            s.push_str(&format!("    proof {{ {} }}\n", pa));
        }
        s.push_str(&format!("    {}\n}}", ep));
        return Ok((s, frag.span()));
    }
    if let Some(pa) = r.opts.get("proof_after") {
        let res = r.opts.get("ret").unwrap_or("r");
        s.push_str(&format!("    let {res} = {body};\n    proof {{ {pa} }}\n    {res}\n}}", res = res, body = body, pa = pa));
    } else {
        s.push_str("    ");
        s.push_str(&body);
        s.push_str("\n}");
    }
    Ok((s, frag.span()))
}
