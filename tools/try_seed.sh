#!/bin/bash
# usage: try_seed.sh <patch.diff> <Cxx> [<Cyy> ...]   — applies a seeded change to /repo, runs the checks, reverts.
# Evidence of these runs goes to .work/evidence-scratch (never to /verif/evidence).
P=$1; shift
cd /repo && git diff --quiet || { echo "/repo is dirty"; exit 2; }
git -C /repo apply $P || { echo "patch does not apply"; exit 2; }
cd /verif
for id in "$@"; do
  echo "--- ./check $id"; VERIF_EVIDENCE_SCRATCH=1 ./check $id 2>&1 | tail -6; echo "rc=${PIPESTATUS[0]}"
done
git -C /repo checkout -- .
git -C /repo status --short | head -3
