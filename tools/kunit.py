#!/usr/bin/env python3
"""developer helper: run one Kani unit (optionally only the obligations whose tag contains a substring)
   tools/kunit.py <template> [repo] [tag-substring]"""
import sys, os, json, re
HERE = os.path.dirname(os.path.dirname(os.path.abspath(__file__)))
sys.path.insert(0, os.path.join(HERE, "lib"))
import common, kani_unit
tmpl = sys.argv[1]; repo = sys.argv[2] if len(sys.argv) > 2 else "/repo"; only = sys.argv[3] if len(sys.argv) > 3 else None
if only:
    orig = kani_unit.parse_obs
    kani_unit.parse_obs = lambda text: [o for o in orig(text) if only in o["tag"]]
ctx = common.Ctx(HERE, repo, "PROBE", os.environ.get("VERIF_TIER", "quick"), 0)
try:
    r = kani_unit.run(ctx, "probe_unit", {"engine": "kani", "template": tmpl, "timeout": 3000, "harness_timeout": int(os.environ.get("HT", "240"))})
finally:
    ctx.cleanup()
print(json.dumps({k: v for k, v in r.items() if k in ("status", "undecided_reason", "obligations", "discharged", "failures")}, indent=1)[:3000])
