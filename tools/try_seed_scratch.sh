#!/bin/bash
# usage: try_seed_scratch.sh <patch.diff> <Cxx> [<Cyy> ...]
# Same as try_seed.sh but on a throw-away copy of /repo's working tree (so /repo stays untouched while other work goes on).
# SEEDRUN=<dir> selects another scratch directory (parallel streams must use different ones AND different properties).
# The copy lives at a fixed path so that the replay crate's build cache (keyed by repo path) is reused; removed afterwards.
[ -n "$1" ] || { echo "usage: try_seed_scratch.sh <patch.diff> <Cxx>..."; exit 2; }
P=$1; shift
S=${SEEDRUN:-/var/tmp/qrlew-verif-seedrun}/repo
mkdir -p $S && rsync -a --delete --exclude target --exclude .git /repo/ $S/ || exit 2
(cd $S && git apply $P) || { echo "patch does not apply"; exit 2; }
cd /verif
for id in "$@"; do
  echo "--- ./check $id (seeded copy)"; ./check $id --repo $S 2>&1 | grep -v condarc | tail -6; echo "rc=${PIPESTATUS[0]}"
done
rm -rf $S
