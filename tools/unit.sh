#!/bin/bash
# developer helper: extract one unit from a repo tree and run Verus on it, printing diagnostics compactly
#   tools/unit.sh <template> [repo]
T=$1; R=${2:-/repo}; O=${TMPDIR:-/var/tmp}/qx-unit-$$; mkdir -p $O
/verif/qx/target/release/qx $R /verif/$T $O/gen.rs $O/rep.json || { echo "qx exit $?"; exit 2; }
cd $O && verus gen.rs --error-format=json --output-json --time --rlimit ${RLIMIT:-30} --multiple-errors 5 2> err.json > out.json
python3 - <<PY
import json
for l in open('$O/err.json'):
    try: d=json.loads(l)
    except: continue
    if d.get('level') in ('error','warning') and d.get('spans'):
        sp=d['spans'][0]; print(d['level'], sp['line_start'], d['message'][:200]); 
        for s in d['spans'][:3]: print('    ', s['line_start'], (s.get('text') or [{}])[0].get('text','').strip()[:160], '|', s.get('label'))
    elif d.get('level')=='error': print('error', d['message'][:300])
try:
    o=json.load(open('$O/out.json')); print(o.get('verification-results'))
except Exception as e: print('no json', e)
PY
echo "generated: $O/gen.rs"
