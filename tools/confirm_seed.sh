#!/bin/bash
# usage: confirm_seed.sh <ID> <worktree> <outdir>
# Confirms a seeded change independently: patch applies to HEAD, stable suite passes with it, demo fails with / passes without.
set -u
ID=$1; WT=$2; OUT=$3
cd $WT || exit 2
git checkout -q -- src 2>/dev/null
cp $OUT/seed_demo.rs tests/seed_demo.rs
echo "== demo WITHOUT change"; cargo test --offline --test seed_demo 2>&1 | grep -E "^test result|error\[" | head -3
git apply $OUT/patch.diff || { echo "patch does not apply"; exit 2; }
echo "== demo WITH change"; cargo test --offline --test seed_demo 2>&1 | grep -E "^test result|error\[" | head -3
echo "== stable suite WITH change"; cargo test --offline --lib -- --exact $(python3 -c "import json;print(' '.join(n.split('qrlew::',1)[1] for n in json.load(open('/root/.vp/BASELINE.json'))['stable_pass']))") 2>&1 | grep -E "^test result" 
git checkout -q -- src
