#!/bin/bash
# Runs every stored seeded change (seeded/<id>[-n]/patch.diff) against the check of its property on a throw-away copy of
# /repo and prints one line per seed: CAUGHT (exit 1 with a VIOLATION line), MISSED (exit 0) or UNDECIDED (exit 2).
#   tools/run_all_seeds.sh [streams]     (default 1; with k streams the properties are dealt round-robin to k sequential
#                                         workers, each with its own scratch copy — a property is never run twice at once)
cd /verif
K=${1:-1}
props=$(ls seeded | sed 's/-.*//' | sort -u)
worker() {
  k=$1; shift
  for pid in "$@"; do for d in seeded/$pid seeded/$pid-*; do
    [ -f $d/patch.diff ] || continue
    id=$(basename $d)
    out=$(SEEDRUN=/var/tmp/qrlew-verif-seedrun-$k tools/try_seed_scratch.sh /verif/$d/patch.diff $pid 2>&1)
    rc=$(echo "$out" | grep -o "rc=[0-9]*" | tail -1)
    case "$rc" in
      rc=1) echo "CAUGHT    $id  $(echo "$out" | grep -m1 '^VIOLATION' | cut -c1-160)";;
      rc=0) echo "MISSED    $id";;
      *)    echo "UNDECIDED $id  $(echo "$out" | grep -m1 -E 'UNDECIDED|does not apply' | cut -c1-200)";;
    esac
  done; done
  rm -rf /var/tmp/qrlew-verif-seedrun-$k
  # the replay build of this stream's scratch copy (keyed by the copy's path, 1-2 GB)
  h=$(python3 -c "import hashlib;print(hashlib.sha1(b'/var/tmp/qrlew-verif-seedrun-$k/repo').hexdigest()[:8])")
  rm -rf /verif/.work/replay-target-$h /verif/.work/replay-crate-$h
}
i=0; declare -a buckets
for p in $props; do buckets[$((i % K))]+=" $p"; i=$((i+1)); done
for k in $(seq 0 $((K-1))); do worker $k ${buckets[$k]} & done
wait
