#!/bin/bash
# Runs every stored seeded change (seeded/<id>[-n]/patch.diff) against the check of its property on a throw-away copy of
# /repo and prints one line per seed: CAUGHT (exit 1 with a VIOLATION line), MISSED (exit 0) or UNDECIDED (exit 2).
cd /verif
for d in seeded/*/; do
  id=$(basename $d); pid=${id%%-*}
  out=$(tools/try_seed_scratch.sh /verif/$d/patch.diff $pid 2>&1)
  rc=$(echo "$out" | grep -o "rc=[0-9]*" | tail -1)
  case "$rc" in
    rc=1) echo "CAUGHT    $id  $(echo "$out" | grep -m1 '^VIOLATION' | cut -c1-160)";;
    rc=0) echo "MISSED    $id";;
    *)    echo "UNDECIDED $id  $(echo "$out" | grep -m1 UNDECIDED | cut -c1-200)";;
  esac
done
