//! Replays concrete witnesses against the real Qrlew code through its public API.
//! usage: qx_replay <name> '<json>'  -> prints `QX-REPLAY violated|holds|panicked <detail>`
use qrlew::data_type::{self, value::{self, Value, Variant as _}, DataType, Variant as _, function::Function as _};
use qrlew::{builder::{Ready, With}, expr::{AggregateColumn, Expr}, relation::{Relation, Reduce, Schema, Variant as _}};
use qrlew::differential_privacy::{DpParameters, aggregates::DpAggregatesParameters};
use qrlew::privacy_unit_tracking::PrivacyUnit;
use serde_json::Value as J;

fn i(j: &J, k: &str) -> i64 { j[k].as_i64().unwrap_or_else(|| j[k].as_str().unwrap().parse().unwrap()) }

fn f(j: &J, k: &str) -> f64 { j[k].as_f64().unwrap() }

/// plain real-number reading of the arithmetic subset of Expr used by the recombination expressions
fn eval(e: &Expr, row: &[(&str, f64)]) -> Result<f64, String> {
    use qrlew::expr::function::Function as F;
    match e {
        Expr::Column(c) => { let n = c.last().unwrap().to_string(); row.iter().find(|(k, _)| *k == n).map(|(_, v)| *v).ok_or(format!("no column {}", n)) }
        Expr::Value(v) => match v { Value::Float(x) => Ok(**x), Value::Integer(x) => Ok(**x as f64), other => Err(format!("value {}", other)) },
        Expr::Function(f) => {
            let a: Vec<f64> = f.arguments().iter().map(|x| eval(x, row)).collect::<Result<_, _>>()?;
            match f.function() {
                F::Plus => Ok(a[0] + a[1]), F::Minus => Ok(a[0] - a[1]), F::Multiply => Ok(a[0] * a[1]), F::Divide => Ok(a[0] / a[1]),
                F::Greatest => Ok(a[0].max(a[1])), F::Least => Ok(a[0].min(a[1])), F::Sqrt => Ok(a[0].sqrt()), F::Pow => Ok(a[0].powf(a[1])),
                F::Gt => Ok((a[0] > a[1]) as i32 as f64), F::GtEq => Ok((a[0] >= a[1]) as i32 as f64), F::Lt => Ok((a[0] < a[1]) as i32 as f64), F::LtEq => Ok((a[0] <= a[1]) as i32 as f64),
                F::Case => Ok(if a[0] != 0. { a[1] } else { a[2] }), F::And => Ok(((a[0] != 0.) && (a[1] != 0.)) as i32 as f64), F::Or => Ok(((a[0] != 0.) || (a[1] != 0.)) as i32 as f64),
                F::Opposite => Ok(-a[0]), F::Abs => Ok(a[0].abs()), F::CastAsInteger => Ok(a[0].round()), F::CastAsFloat => Ok(a[0]),
                other => Err(format!("function {} not in the replay evaluator", other)),
            }
        }
        other => Err(format!("expression {} not in the replay evaluator", other)),
    }
}

fn run(name: &str, j: &J) -> Result<bool, String> {
    match name {
        // C12: two distinct integers must not convert to the same float
        "c12_int_float_injective" => {
            let (a, b) = (i(j, "a"), i(j, "b"));
            let fa = Value::integer(a).as_data_type(&DataType::float()).map_err(|e| e.to_string())?;
            let fb = Value::integer(b).as_data_type(&DataType::float()).map_err(|e| e.to_string())?;
            println!("  {} -> {}, {} -> {}", a, fa, b, fb);
            Ok(a == b || fa != fb)
        }
        // C09: with zero noise the VAR / STD output expression must equal E[x^2] - E[x]^2 of the helper sums
        "c09_var_recombination" | "c09_std_recombination" => {
            let (n, sx, sq) = (f(j, "count"), f(j, "sum"), f(j, "sum_square"));
            let is_var = name == "c09_var_recombination";
            let table: Relation = Relation::table().name("table").schema(
                Schema::builder()
                    .with(("a", DataType::float_interval(-100., 100.)))
                    .with((PrivacyUnit::privacy_unit(), DataType::integer_range(1..=100)))
                    .with((PrivacyUnit::privacy_unit_weight(), DataType::float_interval(0., 1.)))
                    .build()).size(100).build();
            let parameters = DpAggregatesParameters::from_dp_parameters(DpParameters::from_epsilon_delta(1., 1e-3), 1.);
            let agg = if is_var { AggregateColumn::var("a") } else { AggregateColumn::std("a") };
            let reduce: Reduce = Relation::reduce().name("reduce_relation").with(("out".to_string(), agg)).input(table).build();
            let (dp_relation, _ev) = reduce.differentially_private_aggregates(parameters).map_err(|e| e.to_string())?.into();
            // walk down through renaming Maps until the recombination expression is found
            let mut rel: &Relation = &dp_relation;
            let mut col = "out".to_string();
            let expr: Expr = loop {
                match rel {
                    Relation::Map(m) => {
                        let e = m.named_exprs().into_iter().find(|(nm, _)| *nm == col).map(|(_, e)| e.clone()).ok_or("column lost")?;
                        match &e {
                            Expr::Column(c) => { col = c.last().unwrap().to_string(); rel = m.input(); }
                            _ => break e,
                        }
                    }
                    _ => return Err("recombination expression not found".into()),
                }
            };
            // (Expr::value cannot be used: it panics on every float division — see the C18 finding)
            let row: Vec<(&str, f64)> = vec![("_COUNT_a", n), ("_SUM_a", sx), ("_SUM_SQUARE_a", sq)];
            println!("  expr = {}", expr);
            let g = eval(&expr, &row)?;
            let n1 = if n > 1. { n } else { 1. };
            let var = (sq / n1 - (sx / n1) * (sx / n1)).max(0.);
            // "sample": compare with the sample statistic (divisor n - 1), what VARIANCE / STDDEV of the original query return
            let var = if j["sample"].as_bool().unwrap_or(false) && n >= 2. { (sq - sx * sx / n) / (n - 1.) } else { var };
            let want = if is_var { var } else { var.sqrt() };
            println!("  expr = {}\n  on count={} sum={} sum_square={}: got {} want {}", expr, n, sx, sq, g, want);
            Ok((g - want).abs() <= 1e-9 * (1. + want.abs()))
        }
        // C07: declared size of a join versus the rows of a concrete instance (rows counted by the definition of the join)
        "c07_join_size" => {
            use qrlew::relation::{Constraint, Join};
            let lk: Vec<i64> = j["left_keys"].as_array().unwrap().iter().map(|x| x.as_i64().unwrap()).collect();
            let rk: Vec<i64> = j["right_keys"].as_array().unwrap().iter().map(|x| x.as_i64().unwrap()).collect();
            let op = j["op"].as_str().unwrap();
            let uniq = |ks: &Vec<i64>| { let mut s = ks.clone(); s.sort(); s.dedup(); s.len() == ks.len() };
            let mk = |name: &str, ks: &Vec<i64>| -> std::sync::Arc<Relation> {
                let schema: Schema = vec![("a", DataType::integer(), if uniq(ks) { Some(Constraint::Unique) } else { None })].into_iter().collect();
                std::sync::Arc::new(Relation::table().name(name).schema(schema).size(ks.len() as i64).build())
            };
            let (t1, t2) = (mk("table1", &lk), mk("table2", &rk));
            let b = Relation::join().name("join");
            let b = match op { "inner" => b.inner(Expr::val(true)), "left_outer" => b.left_outer(Expr::val(true)), "right_outer" => b.right_outer(Expr::val(true)), "full_outer" => b.full_outer(Expr::val(true)), _ => return Err("op".into()) };
            let join: Join = b.on_eq("a", "a").left(t1).right(t2).build();
            let declared_max = *join.size().max().ok_or("no max")?;
            // rows by definition
            let mut rows = 0i64;
            let mut right_matched = vec![false; rk.len()];
            for l in &lk {
                let mut m = 0;
                for (k, r) in rk.iter().enumerate() { if l == r { m += 1; right_matched[k] = true; } }
                rows += if m == 0 && (op == "left_outer" || op == "full_outer") { 1 } else { m };
            }
            if op == "right_outer" || op == "full_outer" { rows += right_matched.iter().filter(|x| !**x).count() as i64; }
            println!("  {} join of keys {:?} and {:?}: {} rows, declared size {}", op, lk, rk, rows, join.size());
            Ok(rows <= declared_max)
        }
        // C05: a join of two tracked relations must only pair rows of the same privacy unit
        "c05_tracked_join_equates_units" => {
            use qrlew::relation::{Join, JoinOperator};
            use qrlew::privacy_unit_tracking::{PrivacyUnitTracking, PupRelation, Strategy};
            use qrlew::hierarchy::Hierarchy;
            use std::sync::Arc;
            let mk = |name: &str, col: &str| -> Relation {
                Relation::table().name(name).schema(Schema::builder()
                    .with((col, DataType::integer_range(0..=10)))
                    .with((PrivacyUnit::privacy_unit(), DataType::integer_range(1..=100)))
                    .with((PrivacyUnit::privacy_unit_weight(), DataType::float_interval(0., 1.)))
                    .build()).size(100).build()
            };
            let (t1, t2) = (mk("t1", "a"), mk("t2", "b"));
            let b = Relation::join().name("j");
            let b = match j["op"].as_str().unwrap() {
                "cross" => b.cross(),
                "inner" => b.inner(Expr::val(true)),
                "left_outer" => b.left_outer(Expr::val(true)),
                "full_outer" => b.full_outer(Expr::val(true)),
                _ => return Err("op".into()),
            };
            let join: Join = b.left(t1.clone()).right(t2.clone()).build();
            let relations: Hierarchy<Arc<Relation>> = Hierarchy::from([(vec!["t1"], Arc::new(t1.clone())), (vec!["t2"], Arc::new(t2.clone()))]);
            let pu = PrivacyUnit::from(vec![("t1", vec![], "a"), ("t2", vec![], "b")]);
            let put = PrivacyUnitTracking::new(&relations, pu, Strategy::Hard);
            let out = put.join(&join, PupRelation::try_from(t1).map_err(|e| e.to_string())?, PupRelation::try_from(t2).map_err(|e| e.to_string())?).map_err(|e| e.to_string())?;
            // find the rebuilt Join under the Map and look at its operator
            fn find_join(r: &Relation) -> Option<&Join> { match r { Relation::Join(j) => Some(j), Relation::Map(m) => find_join(m.input()), _ => None } }
            let rel: Relation = out.into();
            let jn = find_join(&rel).ok_or("no join in the tracked relation")?;
            let cond = match jn.operator() { JoinOperator::Inner(e) | JoinOperator::LeftOuter(e) | JoinOperator::RightOuter(e) | JoinOperator::FullOuter(e) => Some(e.clone()), JoinOperator::Cross => None };
            println!("  tracked join operator: {}", jn.operator());
            // the ON clause must mention both unit-id columns in an equality
            let ok = cond.map(|e| { let t = e.to_string(); t.contains("_LEFT_._PRIVACY_UNIT_ = _RIGHT_._PRIVACY_UNIT_") || t.contains("_RIGHT_._PRIVACY_UNIT_ = _LEFT_._PRIVACY_UNIT_") }).unwrap_or(false);
            Ok(ok)
        }
        // C14: a projection f(x) of a unique column x keeps the Unique constraint only if f is injective
        "c14_unique_through_function" => {
            use qrlew::relation::{Constraint, Map};
            let (a, b) = (f(j, "a"), f(j, "b"));
            let schema: Schema = vec![("x", DataType::float_interval(-1000., 1000.), Some(Constraint::Unique))].into_iter().collect();
            let table: Relation = Relation::table().name("t").schema(schema).size(100).build();
            let e = match j["fun"].as_str().unwrap() {
                "cast_as_integer" => Expr::cast_as_integer(Expr::col("x")),
                "opposite" => Expr::opposite(Expr::col("x")),
                "cast_as_text" => Expr::cast_as_text(Expr::col("x")),
                other => return Err(format!("fun {}", other)),
            };
            let map: Map = Relation::map().name("m").with(("y", e.clone())).input(table).build();
            let claims_unique = matches!(map.schema()[0].constraint(), Some(Constraint::Unique) | Some(Constraint::PrimaryKey));
            let va = e.value(&Value::structured([("x", Value::float(a))])).map_err(|e| e.to_string())?;
            let vb = e.value(&Value::structured([("x", Value::float(b))])).map_err(|e| e.to_string())?;
            println!("  schema of SELECT {} AS y: constraint {:?}; f({}) = {}, f({}) = {}", e, map.schema()[0].constraint(), a, va, b, vb);
            Ok(!(claims_unique && a != b && va == vb))
        }
        // C18: these must return a value or an Err, never panic (a panic is caught by main and reported as `panicked`)
        "c18_divide_int_super_image" => {
            let dt = DataType::structured([("a", DataType::integer_interval(i(j, "a_lo"), i(j, "a_hi"))), ("b", DataType::integer_interval(i(j, "b_lo"), i(j, "b_hi")))]);
            let r = Expr::divide(Expr::col("a"), Expr::col("b")).super_image(&dt);
            println!("  a / b over {}: {:?}", dt, r.as_ref().map(|t| t.to_string()).map_err(|e| e.to_string()));
            Ok(true)
        }
        "c18_divide_float_super_image" => {
            let dt = DataType::structured([("a", DataType::float_interval(f(j, "a_lo"), f(j, "a_hi"))), ("b", DataType::float_interval(f(j, "b_lo"), f(j, "b_hi")))]);
            let r = Expr::divide(Expr::col("a"), Expr::col("b")).super_image(&dt);
            println!("  a / b over {}: {:?}", dt, r.as_ref().map(|t| t.to_string()).map_err(|e| e.to_string()));
            Ok(true)
        }
        "c18_modulo_super_image" => {
            let vals = |k: &str| -> Vec<i64> { j[k].as_array().unwrap().iter().map(|x| x.as_i64().unwrap()).collect() };
            let dt = DataType::structured([("a", DataType::integer_values(vals("a"))), ("b", DataType::integer_values(vals("b")))]);
            let r = Expr::modulo(Expr::col("a"), Expr::col("b")).super_image(&dt);
            println!("  a % b over {}: {:?}", dt, r.as_ref().map(|t| t.to_string()).map_err(|e| e.to_string()));
            Ok(true)
        }
        "c18_absolute_upper_bound" => {
            let dt = DataType::integer_interval(i(j, "lo"), i(j, "hi"));
            println!("  absolute_upper_bound({}) = {:?}", dt, dt.absolute_upper_bound());
            Ok(true)
        }
        "c18_map_offset" => {
            let table: Relation = Relation::table().name("t").schema(Schema::builder().with(("a", DataType::integer_interval(0, 10))).build()).size(100).build();
            let mut b = Relation::map().name("m").with(("a", Expr::col("a")));
            if let Some(off) = j["offset"].as_u64() { b = b.offset(off as usize); }
            if let Some(lim) = j["limit"].as_u64() { b = b.limit(lim as usize); }
            let m: Relation = b.input(table).build();
            println!("  OFFSET {:?} LIMIT {:?}: size {}", j["offset"].as_u64(), j["limit"].as_u64(), m.size());
            Ok(true)
        }
        // C06: the propagated range of a / b must contain the quotient of every point of the argument ranges
        "c06_divide_float_range" => {
            let dt = DataType::structured([("a", DataType::float_interval(f(j, "a_lo"), f(j, "a_hi"))), ("b", DataType::float_interval(f(j, "b_lo"), f(j, "b_hi")))]);
            let e = Expr::divide(Expr::col("a"), Expr::col("b"));
            let img = e.super_image(&dt).map_err(|e| e.to_string())?;
            let (a, b) = (f(j, "a"), f(j, "b"));
            let y = a / b;   // SQL meaning of the guarded division for |b| >= EPSILON
            println!("  type of a / b over {}: {}; at a = {}, b = {} the quotient is {}", dt, img, a, b, y);
            Ok(img.contains(&Value::float(y)))
        }
        // C18: compiling `SELECT <expr> FROM t` (and the same expression in WHERE and GROUP BY) through the SQL front end, the schema,
        // the rendering and both rewritings returns a relation or an error, never a panic
        "c18_sql_case" | "c18_sql_search" | "c18_query_case" => {
            use qrlew::{hierarchy::Hierarchy, expr::Identifier, sql::parse, synthetic_data::SyntheticData};
            use std::sync::Arc;
            let t: Relation = Relation::table().name("t").schema(vec![
                ("id", DataType::integer()), ("x", DataType::integer_interval(-3, 5)), ("n", DataType::integer()), ("p", DataType::integer_interval(1, 100)),
                ("y", DataType::float_interval(-2.5, 3.5)), ("z", DataType::float()), ("q", DataType::float_interval(0., 10.)), ("b", DataType::boolean()),
                ("s", DataType::text_values(["a".to_string(), "Bc".to_string(), "12".to_string()])), ("w", DataType::text()), ("d", DataType::date()),
                ("ox", DataType::optional(DataType::integer_interval(-3, 5))), ("oy", DataType::optional(DataType::float_interval(0., 10.))),
            ].into_iter().collect::<Schema>()).size(1000).build();
            let tid: Relation = Relation::table().name("tid").schema(vec![("pid", DataType::id()), ("x", DataType::integer_interval(-3, 5))].into_iter().collect::<Schema>()).size(100).build();
            let relations: Hierarchy<Arc<Relation>> = vec![t, tid].iter().map(|t| (Identifier::from(t.name()), Arc::new(t.clone()))).collect();
            let exprs: &[&str] = &[
                "CAST(x AS BOOLEAN)", "CAST(n AS BOOLEAN)", "CAST(y AS BOOLEAN)", "CAST(s AS BOOLEAN)", "CAST(w AS BOOLEAN)", "CAST(s AS FLOAT)", "CAST(s AS INTEGER)", "CAST(w AS FLOAT)",
                "CAST(w AS INTEGER)", "CAST(y AS DATE)", "CAST(x AS DATE)", "CAST(s AS DATE)", "CAST(w AS DATE)", "CAST(b AS DATE)", "CAST(y AS TIME)", "CAST(y AS TIMESTAMP)", "CAST(s AS TIMESTAMP)",
                "CAST(b AS FLOAT)", "CAST(b AS INTEGER)", "CAST(d AS FLOAT)", "CAST(d AS INTEGER)", "CAST(z AS INTEGER)", "CAST(n AS FLOAT)", "CAST(z AS TEXT)", "CAST(x AS JSON)",
                "tan(y)", "tan(z)", "ln(y)", "log(y)", "ln(x)", "log(n)", "sqrt(y)", "sqrt(z)", "exp(z)", "exp(n)", "pow(y, y)", "pow(z, z)", "pow(x, x)", "pow(n, n)",
                "y / y", "y / x", "x / x", "n / n", "x % x", "n % n", "y % y", "x / 0", "y / 0", "x % 0", "1 / x", "1 / y", "1 / 0", "0 / 0", "x / 0.0", "n % -1", "n / -1",
                "z * z", "n * n", "n + n", "n - n", "-n", "abs(n)", "z + z", "z - z", "abs(z)", "sign(z)", "sign(n)", "round(z, 2)", "round(y, x)", "round(y, n)", "trunc(y, x)", "trunc(z, n)",
                "ceil(z)", "floor(z)", "ceil(n)", "substr(w, x)", "substr(w, n)", "substr(s, x)", "substr(w, x, x)", "substr(w, n, n)", "substring(w from x for x)", "position('a' in w)",
                "char_length(w)", "lower(w)", "upper(s)", "md5(w)", "concat(w, s, x)", "w || s", "ltrim(w)", "rtrim(s)", "btrim(w)", "trim(w)", "ltrim(w, 'a')", "regexp_contains(w, 'a')",
                "regexp_extract(w, 'a', 0, 0)", "regexp_replace(w, 'a', 'b')", "coalesce(ox, 0)", "coalesce(ox, oy)", "coalesce(ox, w)", "coalesce(x, w)", "coalesce(oy, ox, 1)",
                "CASE WHEN b THEN x ELSE y END", "CASE WHEN b THEN x ELSE w END", "CASE WHEN b THEN x END", "CASE WHEN ox > 0 THEN x ELSE y END", "CASE x WHEN 1 THEN 'a' ELSE 'b' END",
                "x IN (1, 2, 3)", "w IN ('a', 'b')", "y IN (1, 2.5)", "x BETWEEN 0 AND 2", "x IS NULL", "ox IS NULL", "NOT b", "b AND ox > 0", "b OR NULL", "NULL", "NULL + 1", "x + NULL",
                "greatest(x, y)", "least(x, y, n)", "greatest(w, s)", "greatest(x, w)", "extract(year from d)", "extract(epoch from d)", "extract(hour from d)", "extract(dow from d)",
                "extract(year from x)", "extract(year from w)", "extract(quarter from d)", "ceil(d to day)", "current_date", "current_timestamp", "random()", "pi()",
                "x & n", "x | n", "x ^ n", "y & y", "x << 2", "b + 1", "b * y", "w + 1", "w * 2", "-w", "-b", "NOT x", "NOT w", "x AND y", "x > w", "w > s", "w = 1", "b = 1", "d > '2020-01-01'",
                "d + 1", "d - d", "encode(w, 'hex')", "decode(w, 'hex')", "hex(x)", "is_bool(b)", "nosuchfunction(x, y)", "x::float", "x::text::integer", "sin(z)", "cos(n)", "sin(n)", "sin(x)",
                "exp(1000 * q)", "exp(exp(q * 100))", "ln(exp(-1000 * q))", "1 / exp(-1000*q)", "9223372036854775807 + x", "-9223372036854775808 - x", "9223372036854775807 * x",
                "(-9223372036854775807 - 1) / -1", "1e308 * q", "1e308 * 1e308", "1e-320 / q", "pow(10, 400)", "pow(0, -1)", "sqrt(-1)", "ln(0)", "ln(-1)", "log(0)",
                "nosuchcolumn", "t.nosuch", "sum(nosuch)", "exp()", "concat()", "round(0, 400)", "round(z, 400)", "round(q, -400)", "trunc(0, 400)", "trunc(y, -400)", "round(y, 9223372036854775807)", "(1, 2)", "x IN (SELECT x FROM t)", "EXISTS (SELECT 1 FROM t)", "(SELECT 1)", "x = ANY(ARRAY[1, 2])", "x > ALL(ARRAY[1, 2])", "w LIKE 'a!%' ESCAPE '!'", "INTERVAL '1' DAY", "ARRAY[1, 2]", "x IS DISTINCT FROM n", "x IS NOT DISTINCT FROM n", "b IS UNKNOWN", "w COLLATE \"C\"", "d AT TIME ZONE 'UTC'", "TRIM(BOTH 'a' FROM w)", "overlay(w placing 'a' from 1)", "w SIMILAR TO 'a'", "x IN UNNEST(ARRAY[1, 2])", "w[1]", "TRY_CAST(w AS INTEGER)", "SAFE_CAST(w AS INTEGER)", "GROUPING SETS ((x))", "CUBE (x)", "ROLLUP (x)", "x -> 'a'", "greatest(x)", "coalesce()", "substr(w)", "regexp_replace(w)", "count()", "pow(x)", "round()", "ltrim()", "log()", "X'AB'",
            ];
            let one = |e: &str| -> Option<String> {
                let queries = if name == "c18_query_case" { vec![e.to_string()] } else { vec![format!("SELECT {} AS r FROM t", e), format!("SELECT SUM(q) AS r FROM t WHERE ({}) IS NOT NULL", e), format!("SELECT SUM(q) AS sq FROM t GROUP BY {}", e)] };
                for q in queries {
                    let relations2 = relations.clone();
                    let q2 = q.clone();
                    let r = std::panic::catch_unwind(std::panic::AssertUnwindSafe(move || -> Result<(), String> {
                        let query = parse(&q2).map_err(|e| e.to_string())?;
                        let relation = Relation::try_from(query.with(&relations2)).map_err(|e| e.to_string())?;
                        let _ = relation.schema().to_string();
                        let _ = qrlew::ast::Query::from(&relation).to_string();
                        let pu = PrivacyUnit::from(vec![("t", vec![], "id")]);
                        let sd = Some(SyntheticData::new(Hierarchy::from([(vec!["t"], Identifier::from("st"))])));
                        let _ = relation.rewrite_as_privacy_unit_preserving(&relations2, sd.clone(), pu.clone(), DpParameters::from_epsilon_delta(1., 1e-3), None).map(|r| r.relation().schema().to_string());
                        let _ = relation.rewrite_with_differential_privacy(&relations2, sd, pu, DpParameters::from_epsilon_delta(1., 1e-3)).map(|r| r.relation().schema().to_string());
                        Ok(())
                    }));
                    if r.is_err() { return Some(format!("compiling `{}` panics", q)); }
                }
                None
            };
            std::panic::set_hook(Box::new(|_| {}));
            if name == "c18_query_case" { let r = one(j["query"].as_str().unwrap()); if let Some(m) = &r { println!("  {}", m); } return Ok(r.is_none()); }
            if name == "c18_sql_case" && j.get("query").is_some() { return run("c18_query_case", j); }
            if name == "c18_sql_case" { let r = one(j["expr"].as_str().unwrap()); if let Some(m) = &r { println!("  {}", m); } return Ok(r.is_none()); }
            for e in exprs { if let Some(m) = one(e) { println!("  {}", m); println!("QX-WITNESS {}", serde_json::json!({"expr": e})); return Ok(false); } }
            // whole queries (each compiled as is: parse, build, render, both rewritings): malformed references and unsupported shapes
            let whole: &[&str] = &[
                "WITH c AS (SELECT zzz FROM t) SELECT * FROM c", "WITH c AS (SELECT x FROM t), d AS (SELECT nosuch FROM c) SELECT * FROM d", "SELECT * FROM t AS a JOIN t AS b ON a.id = b.zzz",
                "SELECT a.x FROM t AS a JOIN t AS b USING (zzz)", "SELECT a.x FROM t AS a LEFT JOIN t AS b ON zzz = 1", "SELECT t.* FROM t", "SELECT u.* FROM t", "SELECT x FROM t ORDER BY zzz", "SELECT x FROM t GROUP BY zzz",
                "SELECT count(*) AS c FROM t HAVING zzz > 1", "SELECT x FROM nosuch", "SELECT x FROM t UNION SELECT w FROM t", "SELECT x FROM t UNION SELECT x, id FROM t", "SELECT x AS a, x AS a FROM t",
                "SELECT x FROM t LIMIT 10 OFFSET 5", "SELECT a.x FROM t AS a NATURAL JOIN t AS b", "SELECT a.x FROM t AS a CROSS JOIN t AS b CROSS JOIN t AS c", "SELECT DISTINCT zzz FROM t", "SELECT count(DISTINCT zzz) AS c FROM t",
                "SELECT 1", "SELECT 1 AS a", "SELECT a.x FROM t AS a, t AS b", "VALUES (1), (2)", "SELECT * FROM (VALUES (1), (2)) AS v", "SELECT x FROM t GROUP BY ALL", "SELECT a.x FROM t AS a LEFT SEMI JOIN t AS b ON a.id = b.id",
                "SELECT a.x FROM t AS a JOIN t AS b", "(SELECT x FROM t UNION SELECT x FROM t) UNION SELECT x FROM t", "SELECT x FROM t UNION VALUES (1)", "SELECT * FROM UNNEST(ARRAY[1, 2]) AS u", "TABLE t", "WITH c AS (VALUES (1)) SELECT * FROM c",
                "SELECT x FROM t WHERE x IN (SELECT x FROM t)", "SELECT s.x FROM (SELECT x FROM t) AS s JOIN LATERAL (SELECT 1) AS l ON true", "SELECT sum(y) + x AS r FROM t", "SELECT x FROM t WHERE EXISTS (SELECT 1 FROM t)",
                "SELECT x FROM tid WHERE FALSE", "SELECT x FROM tid WHERE x IN (1, 2) AND FALSE", "SELECT c FROM (SELECT x AS c FROM t) AS a UNION ALL SELECT x FROM t", "SELECT * FROM t NATURAL JOIN t AS u NATURAL JOIN t AS v", "SELECT x AS a, y AS a FROM t", "SELECT a.x FROM t AS a JOIN t AS a ON a.id = a.id",
            ];
            if name == "c18_sql_search" { for q in whole {
                let (q2, relations2) = (q.to_string(), relations.clone());
                let r = std::panic::catch_unwind(std::panic::AssertUnwindSafe(move || -> Result<(), String> {
                    let relation = Relation::try_from(parse(&q2).map_err(|e| e.to_string())?.with(&relations2)).map_err(|e| e.to_string())?;
                    let _ = relation.schema().to_string();
                    let _ = qrlew::ast::Query::from(&relation).to_string();
                    let pu = PrivacyUnit::from(vec![("t", vec![], "id")]);
                    let _ = relation.rewrite_as_privacy_unit_preserving(&relations2, None, pu.clone(), DpParameters::from_epsilon_delta(1., 1e-3), None).map(|r| r.relation().schema().to_string());
                    let _ = relation.rewrite_with_differential_privacy(&relations2, None, pu, DpParameters::from_epsilon_delta(1., 1e-3)).map(|r| r.relation().schema().to_string());
                    Ok(())
                }));
                if r.is_err() { println!("  compiling `{}` panics", q); println!("QX-WITNESS {}", serde_json::json!({"query": q})); return Ok(false); }
            } }
            Ok(true)
        }
        // C12: a type converted into a union — the converted value must lie in the converted type
        "c12_into_union" => {
            use qrlew::data_type::{injection::{From, Injection}, Union};
            let u = Union::from_data_types(&[DataType::integer_interval(0, 10), DataType::integer_interval(0, 5)]);
            let set = DataType::integer_interval(0, 5);
            let inj = From(set.clone()).into(u.clone()).map_err(|e| e.to_string())?;
            let img = inj.super_image(&set).map_err(|e| e.to_string())?;
            let v = Value::integer(i(j, "v"));
            let val = inj.value(&v).map_err(|e| e.to_string())?;
            println!("  {} into {}: image {}, {} converts to {}", set, u, img, v, val);
            Ok(DataType::from(img).contains(&Value::from(val)))
        }
        // C11 (cross-variant): A ⊆ B and v ∈ A must give v ∈ B, and A ∪ B must contain v
        "c11_cross_variant" => {
            let ty = |s: &str| -> DataType { match s { "float" => DataType::float(), "option(float)" => DataType::optional(DataType::float()), "bool{true}" => DataType::boolean_value(true), "int{7}" => DataType::integer_value(7), "str" => DataType::text(), other => panic!("type {}", other) } };
            let (a, b) = (ty(j["a"].as_str().unwrap()), ty(j["b"].as_str().unwrap()));
            let v = match j["v"].as_str().unwrap() { "0.5" => Value::float(0.5), "true" => Value::boolean(true), other => panic!("value {}", other) };
            let u = a.super_union(&b).map_err(|e| e.to_string())?;
            println!("  A = {}, B = {}, v = {}: A ⊆ B {}, v ∈ A {}, v ∈ B {}; A ∪ B = {}, v ∈ A ∪ B {}", a, b, v, a.is_subset_of(&b), a.contains(&v), b.contains(&v), u, u.contains(&v));
            Ok(!(a.is_subset_of(&b) && a.contains(&v) && !b.contains(&v)) && !((a.contains(&v) || b.contains(&v)) && !u.contains(&v)))
        }
        // C06 / C18: binary arithmetic through Expr::super_image / Expr::value on small boxes: range propagation must not panic and the
        // range must contain the value at every sampled point of the box (all representations of the value accepted)
        "c06_arith_case" | "c06_arith_search" => {
            let mk = |op: &str| -> Expr { match op { "plus" => Expr::plus(Expr::col("a"), Expr::col("b")), "minus" => Expr::minus(Expr::col("a"), Expr::col("b")), "multiply" => Expr::multiply(Expr::col("a"), Expr::col("b")),
                "divide" => Expr::divide(Expr::col("a"), Expr::col("b")), "modulo" => Expr::modulo(Expr::col("a"), Expr::col("b")), other => panic!("op {}", other) } };
            let reprs = |y: &Value| -> Vec<Value> {
                let inner: Value = match y { Value::Optional(o) => match o.as_ref() { Some(x) => x.as_ref().clone(), None => return vec![y.clone()] }, _ => y.clone() };
                let mut out = vec![y.clone(), inner.clone()];
                match &inner { Value::Float(x) => { let x: f64 = **x; if x.fract() == 0.0 && x.abs() < 9e18 { out.push(Value::integer(x as i64)); } } Value::Integer(i) => out.push(Value::float(**i as f64)), _ => {} }
                let n = out.len(); for k in 0..n { out.push(Value::some(out[k].clone())); }
                out
            };
            // one case: op, float?, box [a_lo,a_hi] x [b_lo,b_hi], point (a, b)
            let one = |op: &str, fl: bool, bx: [f64; 4], pt: [f64; 2]| -> Option<String> {
                let (ta, tb) = if fl { (DataType::float_interval(bx[0], bx[1]), DataType::float_interval(bx[2], bx[3])) } else { (DataType::integer_interval(bx[0] as i64, bx[1] as i64), DataType::integer_interval(bx[2] as i64, bx[3] as i64)) };
                let dt = DataType::structured([("a", ta), ("b", tb)]);
                let e = mk(op);
                let img = match std::panic::catch_unwind(std::panic::AssertUnwindSafe(|| e.super_image(&dt))) { Err(_) => return Some(format!("range propagation of {} over {} panics", e, dt)), Ok(Err(_)) => return None, Ok(Ok(t)) => t };
                let (va, vb) = if fl { (Value::float(pt[0]), Value::float(pt[1])) } else { (Value::integer(pt[0] as i64), Value::integer(pt[1] as i64)) };
                let arg = Value::structured([("a", va), ("b", vb)]);
                let y = match std::panic::catch_unwind(std::panic::AssertUnwindSafe(|| e.value(&arg))) { Ok(Ok(y)) => y, _ => return None };
                if let Value::Float(x) = &y { if !x.is_finite() { return None; } }
                // NULL is checked strictly (`contains` is lenient across variants: int[1 5] "contains" none through the injection into an optional)
                if y == Value::none() && !matches!(img, DataType::Optional(_) | DataType::Any) { return Some(format!("{} over {} has the range {} but evaluates to NULL at {}", e, dt, img, arg)); }
                if reprs(&y).iter().any(|r| img.contains(r)) { None } else { Some(format!("{} over {} has the range {} but its value at {} is {}", e, dt, img, arg, y)) }
            };
            std::panic::set_hook(Box::new(|_| {}));
            if name == "c06_arith_case" && j.get("partial").is_some() { return run("c06_arith_search", &serde_json::json!({})); }
            if name == "c06_arith_case" {
                let b: Vec<f64> = j["box"].as_array().unwrap().iter().map(|x| x.as_f64().unwrap()).collect();
                let p: Vec<f64> = j["point"].as_array().unwrap().iter().map(|x| x.as_f64().unwrap()).collect();
                let r = one(j["op"].as_str().unwrap(), j["float"].as_bool().unwrap(), [b[0], b[1], b[2], b[3]], [p[0], p[1]]);
                if let Some(m) = &r { println!("  {}", m); }
                return Ok(r.is_none());
            }
            // partial pointwise functions on FINITE sets of values: the image must say so (optional) when one of the values has no
            // image — `a % b` is not defined for b = 0, `CAST(s AS INTEGER)` is not defined for a text that is not a number
            {
                let strict_null_ok = |img: &DataType, y: &Value| -> bool { if *y == Value::none() { matches!(img, DataType::Optional(_) | DataType::Any) } else { true } };
                // functions of a text over a text INTERVAL (e.g. a column narrowed by `name >= 'A' AND name <= 'a'`): the image has to
                // contain the value at a point inside the interval, not only at its bounds
                let text_iv = |lo: &str, hi: &str| DataType::structured([("a", DataType::from(qrlew::data_type::intervals::Intervals::<String>::empty().union_interval(lo.to_string(), hi.to_string())))]);
                for (e, dt, x) in [(Expr::lower(Expr::col("a")), text_iv("A", "a"), "B"), (Expr::upper(Expr::col("a")), text_iv("A", "a"), "Z"), (Expr::upper(Expr::col("a")), text_iv("B", "b"), "a"), (Expr::char_length(Expr::col("a")), text_iv("a", "b"), "abc")] {
                    let arg = Value::structured([("a", Value::text(x))]);
                    if let (Ok(Ok(img)), Ok(Ok(y))) = (std::panic::catch_unwind(std::panic::AssertUnwindSafe(|| e.super_image(&dt))), std::panic::catch_unwind(std::panic::AssertUnwindSafe(|| e.value(&arg)))) {
                        if !reprs(&y).iter().any(|r| img.contains(r)) {
                            println!("  {} over {} has the range {} but its value at {} is {}", e, dt, img, arg, y);
                            println!("QX-WITNESS {}", serde_json::json!({"partial": e.to_string()}));
                            return Ok(false);
                        }
                    }
                }
                let cases: Vec<(Expr, DataType, Value)> = vec![
                    (Expr::modulo(Expr::col("a"), Expr::col("b")), DataType::structured([("a", DataType::integer_values([7, 8])), ("b", DataType::integer_values([0, 3]))]), Value::structured([("a", Value::integer(7)), ("b", Value::integer(0))])),
                    (Expr::cast_as_integer(Expr::col("a")), DataType::structured([("a", DataType::text_values(["1".to_string(), "12".to_string(), "n/a".to_string()]))]), Value::structured([("a", Value::text("n/a"))])),
                    (Expr::cast_as_float(Expr::col("a")), DataType::structured([("a", DataType::text_values(["1.5".to_string(), "x".to_string()]))]), Value::structured([("a", Value::text("x"))])),
                ];
                for (e, dt, arg) in cases {
                    let img = match std::panic::catch_unwind(std::panic::AssertUnwindSafe(|| e.super_image(&dt))) { Err(_) => { println!("  range propagation of {} over {} panics", e, dt); println!("QX-WITNESS {}", serde_json::json!({"partial": e.to_string()})); return Ok(false); } Ok(Err(_)) => continue, Ok(Ok(t)) => t };
                    if let Ok(Ok(y)) = std::panic::catch_unwind(std::panic::AssertUnwindSafe(|| e.value(&arg))) {
                        if !strict_null_ok(&img, &y) {
                            println!("  {} over {} has the range {} but evaluates to {} at {}", e, dt, img, y, arg);
                            println!("QX-WITNESS {}", serde_json::json!({"partial": e.to_string()}));
                            return Ok(false);
                        }
                    }
                }
            }
            let bounds = [-3.0, -1.0, 0.0, 2.0, 5.0];
            for op in ["plus", "minus", "multiply", "divide", "modulo"] { for fl in [false, true] {
                if op == "modulo" && fl { continue; }
                for (i0, a_lo) in bounds.iter().enumerate() { for a_hi in &bounds[i0..] { for (i1, b_lo) in bounds.iter().enumerate() { for b_hi in &bounds[i1..] {
                    // two float sets that are both single integral values are converted to integers by the polymorphic dispatch
                    // (listed finding C06:divide.integral_float_values_are_divided_as_integers): not searched again
                    if fl && op == "divide" && a_lo == a_hi && b_lo == b_hi { continue; }
                    let pts_a: Vec<f64> = if fl { vec![*a_lo, (a_lo + a_hi) / 2., *a_hi, a_lo + (a_hi - a_lo) * 0.001] } else { vec![*a_lo, ((a_lo + a_hi) / 2.).floor(), *a_hi] };
                    let pts_b: Vec<f64> = if fl { vec![*b_lo, (b_lo + b_hi) / 2., *b_hi, b_lo + (b_hi - b_lo) * 0.001, b_hi - (b_hi - b_lo) * 0.001] } else { vec![*b_lo, ((b_lo + b_hi) / 2.).floor(), *b_hi, (b_lo + 1.).min(*b_hi), (b_hi - 1.).max(*b_lo)] };
                    for pa in &pts_a { for pb in &pts_b {
                        if let Some(m) = one(op, fl, [*a_lo, *a_hi, *b_lo, *b_hi], [*pa, *pb]) {
                            println!("  {}", m);
                            println!("QX-WITNESS {}", serde_json::json!({"op": op, "float": fl, "box": [a_lo, a_hi, b_lo, b_hi], "point": [pa, pb]}));
                            return Ok(false);
                        }
                    } }
                } } } }
            } }
            Ok(true)
        }
        // C05: a published (public) relation preserved by an outer join with a tracked relation — every output row must carry a
        // non-null privacy-unit identifier and weight
        "c05_published_outer_join" => {
            use qrlew::{hierarchy::Hierarchy, expr::Identifier, sql::parse, synthetic_data::SyntheticData, data_type::DataTyped};
            use std::sync::Arc;
            let users: Relation = Relation::table().name("users").schema(vec![("id", DataType::integer_interval(0, 100)), ("age", DataType::float_interval(0., 100.)), ("city_id", DataType::integer_interval(0, 10))].into_iter().collect::<Schema>()).size(100).build();
            let cities: Relation = Relation::table().name("cities").schema(vec![("id", DataType::integer_interval(0, 10)), ("name", DataType::text())].into_iter().collect::<Schema>()).size(10).build();
            let relations: Hierarchy<Arc<Relation>> = vec![users, cities].iter().map(|t| (Identifier::from(t.name()), Arc::new(t.clone()))).collect();
            let q = j["query"].as_str().unwrap_or("SELECT c.name, u.age FROM cities AS c LEFT JOIN users AS u ON c.id = u.city_id");
            let relation = Relation::try_from(parse(q).map_err(|e| e.to_string())?.with(&relations)).map_err(|e| e.to_string())?;
            let sd = Some(SyntheticData::new(Hierarchy::from([(vec!["users"], Identifier::from("su")), (vec!["cities"], Identifier::from("sc"))])));
            let r = match relation.rewrite_as_privacy_unit_preserving(&relations, sd, PrivacyUnit::from(vec![("users", vec![], "id")]), DpParameters::from_epsilon_delta(1., 1e-3), None) {
                Ok(r) => r, Err(e) => { println!("  refused: {}", e); return Ok(true); } };
            let schema = r.relation().schema().clone();
            let id = schema.field("_PRIVACY_UNIT_").map_err(|e| e.to_string())?.data_type();
            let w = schema.field("_PRIVACY_UNIT_WEIGHT_").map_err(|e| e.to_string())?.data_type();
            println!("  {}\n  tracked result: _PRIVACY_UNIT_: {}, _PRIVACY_UNIT_WEIGHT_: {}", q, id, w);
            Ok(!matches!(id, DataType::Optional(_)) && !matches!(w, DataType::Optional(_)))
        }
        // C07: an aggregation without GROUP BY returns one row even over an empty input, with NULL for SUM / AVG / MIN / MAX:
        // the declared type must be optional when the input can be empty
        "c07_empty_aggregate" => {
            use qrlew::{hierarchy::Hierarchy, expr::Identifier, sql::parse, data_type::DataTyped};
            use std::sync::Arc;
            let t: Relation = Relation::table().name("t").schema(vec![("y", DataType::float_interval(0., 10.))].into_iter().collect::<Schema>()).size(i(j, "max_size")).build();
            let relations: Hierarchy<Arc<Relation>> = vec![t].iter().map(|t| (Identifier::from(t.name()), Arc::new(t.clone()))).collect();
            let q = j["query"].as_str().unwrap_or("SELECT sum(y) AS s FROM t");
            let rel = Relation::try_from(parse(q).map_err(|e| e.to_string())?.with(&relations)).map_err(|e| e.to_string())?;
            let input_can_be_empty = rel.inputs()[0].size().contains(&0);
            let dt = rel.schema()[0].data_type();
            println!("  {} over a table of size {}: declared {}; over zero rows SQL returns NULL", q, rel.inputs()[0].size(), dt);
            Ok(!(input_can_be_empty && !matches!(dt, DataType::Optional(_) | DataType::Any)))
        }
        // C18: converting an integer range into a float type terminates quickly wherever the range lies (it used to enumerate the range)
        "c18_values_len" => {
            let (lo, hi) = (i(j, "lo"), i(j, "hi"));
            let (tx, rx) = std::sync::mpsc::channel();
            std::thread::spawn(move || { let r = DataType::integer_interval(lo, hi).into_data_type(&DataType::float()).map(|t| t.to_string()); let _ = tx.send(r.map_err(|e| e.to_string())); });
            match rx.recv_timeout(std::time::Duration::from_secs(10)) {
                Ok(r) => { println!("  int[{} {}] into float: {:?}", lo, hi, r.map(|t| t.chars().take(80).collect::<String>())); Ok(true) }
                Err(_) => { println!("  int[{} {}] into float: not finished after 10 s", lo, hi); Ok(false) }
            }
        }
        // C06: COUNT(DISTINCT) / SUM(DISTINCT) over a list of n equal values
        "c06_distinct_range" => {
            use qrlew::data_type::function::{self, Function as _};
            let n = i(j, "n") as usize;
            let dt = DataType::list(DataType::integer_interval(1, 2), n, n);
            let v = Value::list((0..n).map(|_| Value::integer(1)));
            let mut ok = true;
            for (name, f) in [("count_distinct", Box::new(function::count_distinct()) as Box<dyn function::Function>), ("sum_distinct", Box::new(function::sum_distinct()))] {
                let img = f.super_image(&dt).map_err(|e| e.to_string())?; let y = f.value(&v).map_err(|e| e.to_string())?;
                println!("  {} over {}: {}; on {} equal values it is {}", name, dt, img, n, y);
                if !img.contains(&y) { ok = false; }
            }
            Ok(ok)
        }
        // C06: EXTRACT(field FROM date) must lie in the propagated range
        "c06_extract_range" => {
            let d = chrono::NaiveDate::parse_from_str(j["date"].as_str().unwrap(), "%Y-%m-%d").map_err(|e| e.to_string())?;
            let e = match j["field"].as_str().unwrap() { "week" => Expr::extract_week(Expr::col("d")), "year" => Expr::extract_year(Expr::col("d")), other => return Err(format!("field {}", other)) };
            let dt = DataType::structured([("d", DataType::date())]);
            let img = e.super_image(&dt).map_err(|e| e.to_string())?;
            let expected = match j["field"].as_str().unwrap() { "week" => { use chrono::Datelike; d.iso_week().week() as i64 } _ => { use chrono::Datelike; d.year() as i64 } };
            let y = e.value(&Value::structured([("d", Value::date(d))])).map_err(|e| e.to_string())?;
            println!("  {} over {}: {}; on {} the field is {} and the value function gives {}", e, dt, img, d, expected, y);
            Ok(img.contains(&Value::integer(expected)) || img.contains(&Value::some(Value::integer(expected))))
        }
        // C11 / C07: the text type contains every text value
        "c11_text_contains" => {
            let v = Value::text(j["value"].as_str().unwrap());
            println!("  DataType::text() contains {:?}: {}", j["value"].as_str().unwrap(), DataType::text().contains(&v));
            Ok(DataType::text().contains(&v))
        }
        // C18: the compilation of a WHERE made of n conjuncts terminates within the deadline
        "c18_and_chain" => {
            use qrlew::{hierarchy::Hierarchy, expr::Identifier, sql::parse};
            use std::sync::Arc;
            let n = i(j, "conjuncts") as usize; let deadline = i(j, "deadline_s") as u64;
            let (tx, rx) = std::sync::mpsc::channel();
            std::thread::spawn(move || {
                let t: Relation = Relation::table().name("t").schema(vec![("x", DataType::integer_interval(0, 100)), ("y", DataType::float_interval(0., 10.))].into_iter().collect::<Schema>()).size(100).build();
                let relations: Hierarchy<Arc<Relation>> = vec![t].iter().map(|t| (Identifier::from(t.name()), Arc::new(t.clone()))).collect();
                let q = format!("SELECT y FROM t WHERE {}", (0..n).map(|k| format!("x > {}", k)).collect::<Vec<_>>().join(" AND "));
                let r = Relation::try_from(parse(&q).unwrap().with(&relations)).map(|r| r.schema().to_string()).map_err(|e| e.to_string());
                let _ = tx.send(r);
            });
            match rx.recv_timeout(std::time::Duration::from_secs(deadline)) {
                Ok(r) => { println!("  WHERE with {} conjuncts: {:?}", n, r); Ok(true) }
                Err(_) => { println!("  WHERE with {} conjuncts: not compiled after {} s", n, deadline); Ok(false) }
            }
        }
        // C11: interval-set operations on the real Intervals<i64> versus plain point sets over 0..=9
        "c11_intervals_case" | "c11_intervals_search" => {
            use qrlew::data_type::intervals::Intervals;
            fn pts(iv: &Intervals<i64>) -> u16 { let mut m = 0u16; for x in 0..=9i64 { if iv.contains(&x) { m |= 1 << x; } } m }
            fn raw_pts(iv: &Intervals<i64>) -> Option<u16> {
                // read the representation directly (Deref<[[i64;2]]>) and check it is sorted and disjoint
                let mut m = 0u16; let mut last: Option<i64> = None;
                for [a, b] in iv.iter() { if a > b { return None; } if let Some(l) = last { if *a <= l { return None; } } last = Some(*b); for x in (*a).max(0)..=(*b).min(9) { m |= 1 << x; } }
                Some(m)
            }
            fn build(ivs: &[(i64, i64)]) -> (Intervals<i64>, u16) {
                let mut r = Intervals::<i64>::empty(); let mut m = 0u16;
                for (a, b) in ivs { r = r.union_interval(*a, *b); for x in *a..=*b { m |= 1 << x; } }
                (r, m)
            }
            fn check(a: &[(i64, i64)], b: &[(i64, i64)]) -> Option<String> {
                let (ia, ma) = build(a); let (ib, mb) = build(b);
                match raw_pts(&ia) { None => return Some(format!("{:?} builds an unsorted list {}", a, ia)), Some(m) if m != ma => return Some(format!("{:?} builds {} (points {:#b} expected {:#b})", a, ia, m, ma)), _ => {} }
                let u = ia.clone().union(ib.clone());
                // the property asks for over-approximations (and a well-formed list): the union contains both operands, the
                // intersection contains the common points, and a positive `is_subset_of` is a real inclusion
                match raw_pts(&u) { None => return Some(format!("{} union {} = {} is not sorted and disjoint", ia, ib, u)), Some(m) if m & (ma | mb) != (ma | mb) => return Some(format!("{} union {} = {}", ia, ib, u)), _ => {} }
                let n = ia.clone().intersection(ib.clone());
                match raw_pts(&n) { None => return Some(format!("{} intersection {} = {} is not sorted and disjoint", ia, ib, n)), Some(m) if m & (ma & mb) != (ma & mb) => return Some(format!("{} intersection {} = {}", ia, ib, n)), _ => {} }
                if ia.is_subset_of(&ib) && (ma & !mb != 0) { return Some(format!("{} is_subset_of {} = true", ia, ib)); }
                if pts(&ia) != ma { return Some(format!("contains() of {} disagrees with its points", ia)); }
                None
            }
            let parse = |k: &str| -> Vec<(i64, i64)> { j[k].as_array().map(|v| v.iter().map(|p| (p[0].as_i64().unwrap(), p[1].as_i64().unwrap())).collect()).unwrap_or_default() };
            if name == "c11_intervals_case" {
                let r = check(&parse("a"), &parse("b"));
                if let Some(m) = &r { println!("  {}", m); }
                return Ok(r.is_none());
            }
            // search: all pairs of lists of up to 2 intervals with bounds in 0..=6
            let mut ivs: Vec<(i64, i64)> = vec![]; for a in 0..=6 { for b in a..=6 { ivs.push((a, b)); } }
            let mut lists: Vec<Vec<(i64, i64)>> = vec![vec![]];
            for x in &ivs { lists.push(vec![*x]); }
            for x in &ivs { for y in &ivs { lists.push(vec![*x, *y]); } }
            for a in &lists { for b in lists.iter().step_by(7) {
                if let Some(m) = check(a, b) {
                    println!("  {}", m);
                    println!("QX-WITNESS {}", serde_json::json!({"a": a.iter().map(|p| vec![p.0, p.1]).collect::<Vec<_>>(), "b": b.iter().map(|p| vec![p.0, p.1]).collect::<Vec<_>>()}));
                    return Ok(false);
                }
            } }
            Ok(true)
        }
        // C04: the threshold of tau-thresholding is at least what (epsilon, delta, Cu) require: 1 + sigma * z with z the standard normal
        // quantile of (1 - delta)^(1/Cu), computed here from the upper tail (erfc_inv), accurate where 1 - tail rounds to 1
        "c04_tau_case" | "c04_tau_search" => {
            use qrlew::differential_privacy::dp_event::gaussian_tau;
            let one = |eps: f64, delta: f64, cu: f64| -> Option<String> {
                let tau = gaussian_tau(eps, delta, cu);
                let tail = -((-delta).ln_1p() / cu).exp_m1();                 // 1 - (1 - delta)^(1/Cu)
                let z = std::f64::consts::SQRT_2 * statrs::function::erf::erfc_inv(2. * tail);
                let sigma = ((2. * (1.25 / delta).ln()).sqrt() / eps * cu.sqrt()).clamp(0., f64::MAX);
                let required = 1. + sigma * z;
                if tau.is_nan() || tau < required * (1. - 1e-2) { Some(format!("gaussian_tau({}, {}, {}) = {} is below the threshold 1 + sigma * z = 1 + {} * {} = {} the parameters require", eps, delta, cu, tau, sigma, z, required)) } else { None }
            };
            if name == "c04_tau_case" { let r = one(f(j, "epsilon"), f(j, "delta"), f(j, "cu")); if let Some(m) = &r { println!("  {}", m); } return Ok(r.is_none()); }
            for eps in [0.1, 0.5, 1.0, 3.0] { for delta in [1e-2, 1e-3, 1e-6, 1e-10, 1e-14, 1e-16, 2e-18, 1e-20, 1e-30] { for cu in [1.0, 5.0, 100.0] {
                if let Some(m) = one(eps, delta, cu) { println!("  {}", m); println!("QX-WITNESS {}", serde_json::json!({"epsilon": eps, "delta": delta, "cu": cu})); return Ok(false); }
            } } }
            Ok(true)
        }
        // C07: the declared type of COUNT / SUM of a filtered aggregation without GROUP BY contains what it returns when the filter
        // keeps no row (0), one row, or every row
        "c07_count_case" | "c07_count_search" => {
            use qrlew::{hierarchy::Hierarchy, expr::Identifier, sql::parse, data_type::DataTyped};
            use std::sync::Arc;
            let t: Relation = Relation::table().name("t").schema(vec![("a", DataType::integer_interval(0, 10)), ("g", DataType::integer_interval(0, 3))].into_iter().collect::<Schema>()).size(100).build();
            let relations: Hierarchy<Arc<Relation>> = vec![t].iter().map(|t| (Identifier::from(t.name()), Arc::new(t.clone()))).collect();
            // (query, values the single output column can take on a conforming instance)
            let cases: [(&str, &[i64]); 5] = [
                ("SELECT count(a) AS n FROM t WHERE a > 9", &[0, 1, 100]), ("SELECT count(*) AS n FROM t WHERE a > 9", &[0, 1, 100]), ("SELECT count(DISTINCT a) AS n FROM t WHERE a > 8", &[0, 1, 2]),
                ("SELECT sum(a) AS s FROM t WHERE a > 9", &[10, 1000]), ("SELECT g, count(a) AS n FROM t WHERE a > 9 GROUP BY g", &[1, 100]),
            ];
            let one = |k: usize| -> Option<String> {
                let (q, values) = cases[k];
                let rel = Relation::try_from(parse(q).ok()?.with(&relations)).ok()?;
                let dt = rel.schema().iter().last()?.data_type();
                for v in values { if !dt.contains(&Value::integer(*v)) && !dt.contains(&Value::float(*v as f64)) { return Some(format!("`{}` can return {} but its column is declared {}", q, v, dt)); } }
                None
            };
            std::panic::set_hook(Box::new(|_| {}));
            if name == "c07_count_case" { let r = one(j["case"].as_u64().unwrap() as usize); if let Some(m) = &r { println!("  {}", m); } return Ok(r.is_none()); }
            for k in 0..cases.len() { if let Some(m) = std::panic::catch_unwind(std::panic::AssertUnwindSafe(|| one(k))).unwrap_or(None) { println!("  {}", m); println!("QX-WITNESS {}", serde_json::json!({"case": k})); return Ok(false); } }
            Ok(true)
        }
        // C06: the propagated range of an aggregate over a list type must contain the aggregate of every list of the type
        "c06_aggregate_range" | "c06_aggregate_search" => {
            use qrlew::data_type::function as fun;
            let eval = |agg: &str, lo: f64, hi: f64, vals: &[f64]| -> Result<Option<String>, String> {
                let f: Box<dyn fun::Function> = match agg { "var" => Box::new(fun::var()), "std" => Box::new(fun::std()), "mean" => Box::new(fun::mean()), other => return Err(format!("agg {}", other)) };
                let n = vals.len() as i64;
                let list_t = DataType::list(DataType::float_interval(lo, hi), n as usize, n as usize);
                let img = f.super_image(&list_t).map_err(|e| e.to_string())?;
                let v = f.value(&Value::list(vals.iter().map(|x| Value::float(*x)))).map_err(|e| e.to_string())?;
                if img.contains(&v) { Ok(None) } else { Ok(Some(format!("{}({:?}) = {} is not in {}({}) = {}", agg, vals, v, agg, list_t, img))) }
            };
            if name == "c06_aggregate_range" {
                let vals: Vec<f64> = j["values"].as_array().unwrap().iter().map(|x| x.as_f64().unwrap()).collect();
                let r = eval(j["agg"].as_str().unwrap(), f(j, "lo"), f(j, "hi"), &vals)?;
                if let Some(m) = &r { println!("  {}", m); }
                return Ok(r.is_none());
            }
            for agg in ["mean", "var", "std"] { for (lo, hi) in [(0.0, 1.0), (-1.0, 2.0), (0.0, 10.0)] { for vals in [vec![lo, hi], vec![lo, lo], vec![lo, hi, hi], vec![lo, (lo + hi) / 2.0, hi]] {
                if let Some(m) = eval(agg, lo, hi, &vals)? {
                    println!("  {}", m);
                    println!("QX-WITNESS {}", serde_json::json!({"agg": agg, "lo": lo, "hi": hi, "values": vals}));
                    return Ok(false);
                }
            } } }
            Ok(true)
        }
        // C05: the hops of a foreign-key path, through the public PrivacyUnitPath API
        "c05_path_hops" | "c05_path_search" => {
            use qrlew::privacy_unit_tracking::privacy_unit::{PrivacyUnitPath, PRIVACY_UNIT, PRIVACY_UNIT_WEIGHT};
            let check = |steps: &[(String, String, String)], field: &str, weight: Option<&str>| -> Option<String> {
                let sv: Vec<(&str, &str, &str)> = steps.iter().map(|(a, b, c)| (a.as_str(), b.as_str(), c.as_str())).collect();
                let pp: PrivacyUnitPath = match weight { Some(w) => (sv, field, w).into(), None => (sv, field).into() };
                let hops: Vec<_> = pp.into_iter().collect();
                if hops.len() != steps.len() { return Some(format!("{} hops for {} steps", hops.len(), steps.len())); }
                for (k, h) in hops.iter().enumerate() {
                    let last = k + 1 == steps.len();
                    let referring = if k == 0 { steps[0].0.as_str() } else { PRIVACY_UNIT };
                    let carried = if last { field } else { steps[k + 1].0.as_str() };
                    if h.referring_id != referring || h.referred_relation != steps[k].1 || h.referred_id != steps[k].2 {
                        return Some(format!("hop {} joins {} -> {}.{}; the path says {} -> {}.{}", k, h.referring_id, h.referred_relation, h.referred_id, referring, steps[k].1, steps[k].2));
                    }
                    if h.referred_fields.first().map(|s| s.as_str()) != Some(carried) || h.referred_fields_names.first().map(|s| s.as_str()) != Some(PRIVACY_UNIT) {
                        return Some(format!("hop {} carries column {:?} of {} as {:?}; the next hop joins on {:?}", k, h.referred_fields.first(), steps[k].1, h.referred_fields_names.first(), carried));
                    }
                    // the weight column lives in the table that owns the unit: only the LAST hop carries it (an intermediate hop
                    // carries the next key only — fix adbc5fb)
                    match (weight, last) {
                        (Some(w), true) => if h.referred_fields.len() != 2 || h.referred_fields_names.get(1).map(|s| s.as_str()) != Some(PRIVACY_UNIT_WEIGHT) || h.referred_fields[1] != w {
                            return Some(format!("hop {} weight columns {:?} as {:?}", k, h.referred_fields, h.referred_fields_names));
                        },
                        _ => if h.referred_fields.len() != 1 { return Some(format!("hop {} carries {:?}", k, h.referred_fields)); },
                    }
                }
                None
            };
            let parse = |j: &J| -> Vec<(String, String, String)> { j["steps"].as_array().map(|v| v.iter().map(|s| (s[0].as_str().unwrap().to_string(), s[1].as_str().unwrap().to_string(), s[2].as_str().unwrap().to_string())).collect()).unwrap_or_default() };
            if name == "c05_path_hops" {
                let r = check(&parse(j), j["field"].as_str().unwrap(), j["weight"].as_str());
                if let Some(m) = &r { println!("  {}", m); }
                return Ok(r.is_none());
            }
            // search: paths of 1..=3 steps with pairwise distinct column / table names, with and without a weight column
            for n in 1..=3usize { for weight in [None, Some("w")] {
                let steps: Vec<(String, String, String)> = (0..n).map(|k| (format!("fk{}", k), format!("t{}", k), format!("pk{}", k))).collect();
                if let Some(m) = check(&steps, "name", weight) {
                    println!("  {}", m);
                    println!("QX-WITNESS {}", serde_json::json!({"steps": steps.iter().map(|(a, b, c)| vec![a, b, c]).collect::<Vec<_>>(), "field": "name", "weight": weight}));
                    return Ok(false);
                }
            } }
            Ok(true)
        }
        // C06: range of a unary float function over a union of intervals versus its value at one point of the set
        "c06_unary_float_range" | "c06_periodic_search" => {
            use qrlew::data_type::intervals::Intervals;
            if name == "c06_periodic_search" {
                // sets of one or two short intervals, near and far from the base period, sampled at their bounds and midpoints
                let starts = [-7.0, -2.0, -0.1, 0.0, 1.0, 3.0, 4.5, 6.0, 20.0, 100.0];
                for fname in ["sin", "cos"] { for a in starts { for w in [0.1, 1.0, 1.5, 4.0] { for b in starts {
                    let mut iv = Intervals::<f64>::empty().union_interval(a, a + w);
                    let ivs = if b > a + w { iv = iv.union_interval(b, b + 0.1); vec![vec![a, a + w], vec![b, b + 0.1]] } else { vec![vec![a, a + w]] };
                    let dt = DataType::structured([("a", DataType::from(iv))]);
                    let e = if fname == "sin" { Expr::sin(Expr::col("a")) } else { Expr::cos(Expr::col("a")) };
                    let img = e.super_image(&dt).map_err(|e| e.to_string())?;
                    for p in &ivs { for t in [0.0, 0.25, 0.5, 0.75, 1.0] {
                        let x = p[0] + t * (p[1] - p[0]);
                        let y = if fname == "sin" { x.sin() } else { x.cos() };
                        // one ulp-scale tolerance: the shifted argument is rounded
                        let near = |v: f64| img.contains(&Value::float(v));
                        if !(near(y) || near(y + 1e-9) || near(y - 1e-9)) {
                            println!("  type of {}(a) over {}: {}; at a = {} the value is {}", fname, dt, img, x, y);
                            println!("QX-WITNESS {}", serde_json::json!({"fn": fname, "intervals": ivs, "x": x}));
                            return Ok(false);
                        }
                    } }
                } } } }
                return Ok(true);
            }
            let mut iv = Intervals::<f64>::empty();
            for p in j["intervals"].as_array().unwrap() { iv = iv.union_interval(p[0].as_f64().unwrap(), p[1].as_f64().unwrap()); }
            let dt = DataType::structured([("a", DataType::from(iv))]);
            let fname = j["fn"].as_str().unwrap();
            let e = match fname { "sin" => Expr::sin(Expr::col("a")), "cos" => Expr::cos(Expr::col("a")), other => return Err(format!("fn {}", other)) };
            let x = f(j, "x");
            let y = match fname { "sin" => x.sin(), _ => x.cos() };
            let img = e.super_image(&dt).map_err(|e| e.to_string())?;
            println!("  type of {}(a) over {}: {}; at a = {} the value is {}", fname, dt, img, x, y);
            Ok(img.contains(&Value::float(y)))
        }
        // C09: a DISTINCT aggregate must be computed on de-duplicated values: the rewritten query has to contain a
        // de-duplication (GROUP BY / DISTINCT) on the aggregated column somewhere below the noisy aggregate
        "c09_distinct_is_deduplicated" => {
            use qrlew::{hierarchy::Hierarchy, expr::Identifier, sql::parse, differential_privacy::DpParameters};
            use std::sync::Arc;
            let agg = j["agg"].as_str().unwrap_or("count");
            let table: Relation = Relation::table().name("t").schema(vec![("id", DataType::integer()), ("y", DataType::float_interval(0., 10.))].into_iter().collect::<Schema>()).size(1000).build();
            let relations: Hierarchy<Arc<Relation>> = vec![table].iter().map(|t| (Identifier::from(t.name()), Arc::new(t.clone().into()))).collect();
            let query = format!("SELECT {}(DISTINCT y) AS c FROM t", agg);
            let relation = Relation::try_from(parse(&query).map_err(|e| e.to_string())?.with(&relations)).map_err(|e| e.to_string())?;
            let rewritten = relation.rewrite_with_differential_privacy(&relations, None, PrivacyUnit::from(vec![("t", vec![], "id")]), DpParameters::from_epsilon_delta(1., 1e-3)).map_err(|e| e.to_string())?;
            // walk the rewritten relation: is there any Reduce grouping by a column that stands for y, or any DISTINCT?
            fn walk(r: &Relation, found: &mut bool, depth: usize) {
                if let Relation::Reduce(red) = r {
                    let gb: Vec<String> = red.group_by().iter().map(|c| c.to_string()).collect();
                    println!("  {}Reduce {} GROUP BY [{}]", " ".repeat(depth), red.name(), gb.join(", "));
                    if gb.iter().any(|g| g == "y" || g.ends_with(".y")) { *found = true; }
                }
                for i in r.inputs() { walk(i, found, depth + 1); }
            }
            let mut found = false;
            walk(rewritten.relation(), &mut found, 0);
            let sql = qrlew::ast::Query::from(rewritten.relation()).to_string();
            if sql.to_uppercase().contains("DISTINCT") { found = true; }
            if j["print_sql"].as_bool().unwrap_or(false) { println!("  rewritten: {}", sql); }
            println!("  query: {}\n  rewritten query de-duplicates y: {}", query, found);
            Ok(found)
        }
        // C11: struct types — A ⊆ B and v ∈ A must give v ∈ B
        "c11_struct_subset" => {
            let ty = |spec: &J| -> DataType { DataType::structured(spec.as_array().unwrap().iter().map(|f| {
                let name = f[0].as_str().unwrap().to_string();
                let t = match f[1].as_str().unwrap() { "any" => DataType::Any, "int" => DataType::integer_interval(0, 10), "float" => DataType::float_interval(0., 1.), other => panic!("type {}", other) };
                (name, t) }).collect::<Vec<_>>()) };
            let a = ty(&j["a"]); let b = ty(&j["b"]);
            let v = Value::structured(j["v"].as_array().unwrap().iter().map(|f| (f[0].as_str().unwrap().to_string(), Value::integer(f[1].as_i64().unwrap()))).collect::<Vec<_>>());
            let (sub, ina, inb) = (a.is_subset_of(&b), a.contains(&v), b.contains(&v));
            println!("  A = {}, B = {}, v = {}: A.is_subset_of(B) = {}, A.contains(v) = {}, B.contains(v) = {}", a, b, v, sub, ina, inb);
            Ok(!(sub && ina && !inb))
        }
        // C14: schema of a Reduce — which output columns are declared UNIQUE
        "c14_reduce_unique" => {
            use qrlew::relation::Constraint;
            let cons = |k: &str| -> Option<Constraint> { match j[k].as_str() { Some("unique") => Some(Constraint::Unique), Some("fk") => Some(Constraint::ForeignKey), Some("pk") => Some(Constraint::PrimaryKey), _ => None } };
            let schema: Schema = vec![("g", DataType::integer_interval(0, 10), cons("g")), ("h", DataType::integer_interval(0, 10), cons("h")), ("x", DataType::integer_interval(0, 10), cons("x"))].into_iter().collect();
            let table: Relation = Relation::table().name("t").schema(schema).size(100).build();
            // keys: the group-by columns; firsts: columns output through FIRST(col)
            let keys: Vec<String> = j["keys"].as_array().unwrap().iter().map(|k| k.as_str().unwrap().to_string()).collect();
            let firsts: Vec<String> = j["firsts"].as_array().unwrap().iter().map(|k| k.as_str().unwrap().to_string()).collect();
            let mut b = Relation::reduce().name("r").input(table);
            for f in &firsts { b = b.with((format!("first_{}", f), AggregateColumn::first(f.as_str()))); }
            b = b.with(("s", AggregateColumn::sum("x")));
            for k in &keys { b = b.group_by(Expr::col(k.as_str())); }
            let red: Relation = b.build();
            // rows (g, h, x) honouring the declared constraints of the witness; execute the reduce by hand
            let rows: Vec<(i64, i64, i64)> = j["rows"].as_array().unwrap().iter().map(|r| (r[0].as_i64().unwrap(), r[1].as_i64().unwrap(), r[2].as_i64().unwrap())).collect();
            let col = |r: &(i64, i64, i64), c: &str| match c { "g" => r.0, "h" => r.1, _ => r.2 };
            // the rows must honour the declared constraints, otherwise the witness says nothing
            for c in ["g", "h", "x"] { if matches!(cons(c), Some(Constraint::Unique) | Some(Constraint::PrimaryKey)) {
                let mut v: Vec<i64> = rows.iter().map(|r| col(r, c)).collect(); let n = v.len(); v.sort(); v.dedup();
                if v.len() != n { println!("  rows do not honour UNIQUE({})", c); return Ok(true); }
            } }
            let mut groups: Vec<(Vec<i64>, (i64, i64, i64))> = vec![];
            for r in &rows { let key: Vec<i64> = keys.iter().map(|k| col(r, k)).collect(); if !groups.iter().any(|(k, _)| *k == key) { groups.push((key, *r)); } }
            let mut ok = true;
            for f in &firsts {
                let name = format!("first_{}", f);
                let field = red.schema().field(&name).map_err(|e| e.to_string())?;
                let declared_unique = matches!(field.constraint(), Some(Constraint::Unique) | Some(Constraint::PrimaryKey));
                let vals: Vec<i64> = groups.iter().map(|(_, first)| col(first, f)).collect();
                let mut d = vals.clone(); d.sort(); d.dedup();
                println!("  {}: declared {:?}; values over the groups {:?}", name, field.constraint(), vals);
                if declared_unique && d.len() != vals.len() { ok = false; }
            }
            Ok(ok)
        }
        // C15: name lookup through the real Hierarchy: exact path wins, otherwise the single entry agreeing on every
        // trailing component both have, otherwise nothing
        "c15_lookup_case" | "c15_lookup_search" => {
            use qrlew::hierarchy::Hierarchy;
            fn agree(a: &[String], b: &[String]) -> bool { a.iter().rev().zip(b.iter().rev()).all(|(x, y)| x == y) }
            fn check(entries: &[Vec<String>], path: &[String]) -> Option<String> {
                let h: Hierarchy<usize> = entries.iter().enumerate().map(|(i, p)| (p.clone(), i)).collect();
                // entries may repeat a path: the map keeps the last one
                let mut uniq: Vec<(Vec<String>, usize)> = vec![];
                for (i, p) in entries.iter().enumerate() { if let Some(e) = uniq.iter_mut().find(|(q, _)| q == p) { e.1 = i; } else { uniq.push((p.clone(), i)); } }
                let expected: Option<usize> = match uniq.iter().find(|(q, _)| q.as_slice() == path) {
                    Some((_, i)) => Some(*i),
                    None => { let c: Vec<usize> = uniq.iter().filter(|(q, _)| agree(path, q)).map(|(_, i)| *i).collect(); if c.len() == 1 { Some(c[0]) } else { None } }
                };
                let got = h.get(path).copied();
                let got_kv = h.get_key_value(path).map(|(_, v)| *v);
                if got != expected || got_kv != expected { Some(format!("entries {:?}, lookup {:?}: get = {:?}, get_key_value = {:?}, expected {:?}", entries, path, got, got_kv, expected)) } else { None }
            }
            let parse = |v: &J| -> Vec<String> { v.as_array().map(|a| a.iter().map(|s| s.as_str().unwrap().to_string()).collect()).unwrap_or_default() };
            if name == "c15_lookup_case" {
                let entries: Vec<Vec<String>> = j["entries"].as_array().unwrap().iter().map(|e| parse(e)).collect();
                let r = check(&entries, &parse(&j["path"]));
                if let Some(m) = &r { println!("  {}", m); }
                return Ok(r.is_none());
            }
            // search: up to 5 entries among paths of length 1..=3 over {a, b}, ending in the same component or not
            let mut paths: Vec<Vec<String>> = vec![];
            for l in 1..=3usize { for m in 0..(1usize << l) { paths.push((0..l).map(|k| if (m >> k) & 1 == 1 { "a".to_string() } else { "b".to_string() }).collect()); } }
            let n = paths.len();
            for size in 1..=5usize {
                let mut idx: Vec<usize> = (0..size).collect();
                loop {
                    let entries: Vec<Vec<String>> = idx.iter().map(|i| paths[*i].clone()).collect();
                    for q in &paths {
                        if let Some(m) = check(&entries, q) {
                            println!("  {}", m);
                            println!("QX-WITNESS {}", serde_json::json!({"entries": entries, "path": q}));
                            return Ok(false);
                        }
                    }
                    // next combination
                    let mut k = size; let mut done = true;
                    while k > 0 { k -= 1; if idx[k] < n - (size - k) { idx[k] += 1; for t in k + 1..size { idx[t] = idx[t - 1] + 1; } done = false; break; } }
                    if done { break; }
                }
            }
            Ok(true)
        }
        // C18: converting an optional value whose content does not convert must give Err, not panic
        "c18_optional_conversion" => {
            let x = f(j, "x");
            let v = Value::some(Value::float(x));
            let target = DataType::optional(DataType::integer());
            let r = v.as_data_type(&target);
            println!("  Some({}) as {}: {:?}", x, target, r.as_ref().map(|v| v.to_string()).map_err(|e| e.to_string()));
            Ok(true)
        }
        // C14 / C07: an ON clause equating two columns of the SAME input does not pair rows of the two inputs
        "c14_join_same_side_equality" => {
            use qrlew::relation::Constraint;
            let ls: Schema = vec![("id", DataType::integer_interval(0, 10), Some(Constraint::Unique)), ("x", DataType::integer_interval(0, 10), None)].into_iter().collect();
            let rs: Schema = vec![("k", DataType::integer_interval(0, 10), Some(Constraint::Unique))].into_iter().collect();
            let l: Relation = Relation::table().name("l").schema(ls).size(3).build();
            let r: Relation = Relation::table().name("r").schema(rs).size(2).build();
            let on = if j["swap"].as_bool().unwrap_or(false) { Expr::eq(Expr::qcol("_LEFT_", "id"), Expr::qcol("_LEFT_", "x")) } else { Expr::eq(Expr::qcol("_LEFT_", "x"), Expr::qcol("_LEFT_", "id")) };
            let jn: Relation = Relation::join().name("j").inner(on.clone()).left(l).right(r).build();
            // l = {(1,1),(2,2),(3,3)} satisfies x = id on every row; r = {10, 20}: the join has 3 * 2 = 6 rows and k takes each value 3 times
            let kf = jn.schema().iter().last().unwrap().clone();
            let declared_unique = matches!(kf.constraint(), Some(Constraint::Unique) | Some(Constraint::PrimaryKey));
            println!("  JOIN ON {}: size {}, right column `{}` constraint {:?}; with l = (1,1),(2,2),(3,3) and r = 10, 20 the join has 6 rows and k repeats", on, jn.size(), kf.name(), kf.constraint());
            let max_size = *jn.size().max().unwrap();
            Ok(!declared_unique && max_size >= 6)
        }
        // C11: composite types — enumerate small struct / union / optional / list types and values: A ⊆ B and v ∈ A must give v ∈ B
        "c11_composite_case" | "c11_composite_search" => {
            fn lists() -> Vec<DataType> { let mut v = vec![]; for (a, b) in [(0, 3), (1, 5), (2, 5), (4, 10), (0, 10)] { for (lo, hi) in [(0, 20), (0, 5)] { v.push(DataType::list(DataType::integer_interval(lo, hi), a, b)); } } v }
            fn list_values() -> Vec<Value> { let mut v = vec![]; for n in 0..=5usize { v.push(Value::list((0..n).map(|k| Value::integer(k as i64)))); v.push(Value::list((0..n).map(|_| Value::integer(7)))); } v }
            fn optionals() -> Vec<DataType> { vec![DataType::optional(DataType::integer_interval(0, 5)), DataType::optional(DataType::integer_interval(0, 20)), DataType::optional(DataType::float_interval(0., 1.))] }
            fn optional_values() -> Vec<Value> { vec![Value::none(), Value::some(Value::integer(3)), Value::some(Value::integer(12)), Value::some(Value::float(0.5))] }
            fn structs() -> Vec<DataType> { let int = || DataType::integer_interval(0, 10); vec![
                DataType::structured([("a", int())]), DataType::structured([("a", int()), ("b", DataType::Any)]), DataType::structured([("a", int()), ("b", DataType::float_interval(0., 1.))]),
                DataType::structured([("a", int()), ("b", int())]), DataType::structured([("b", int())]) ] }
            fn struct_values() -> Vec<Value> { vec![Value::structured([("a", Value::integer(5))]), Value::structured([("a", Value::integer(5)), ("b", Value::integer(3))]), Value::structured([("b", Value::integer(3))]), Value::structured([("a", Value::integer(5)), ("b", Value::float(0.5))])] }
            // tagged unions: alternatives present on one side only, shared alternatives with different ranges
            fn unions() -> Vec<DataType> { let int = |a, b| DataType::integer_interval(a, b); let txt = || DataType::text_values(["x".to_string(), "y".to_string()]); vec![
                DataType::union([("a", int(0, 10))]), DataType::union([("a", int(5, 20)), ("b", txt())]), DataType::union([("b", txt())]), DataType::union([("b", txt()), ("c", int(0, 3)), ("a", int(0, 2))]) ] }
            fn union_values() -> Vec<Value> { vec![Value::union("a".to_string(), Value::integer(2)), Value::union("a".to_string(), Value::integer(17)), Value::union("b".to_string(), Value::text("x")), Value::union("c".to_string(), Value::integer(3))] }
            let families: Vec<(&str, Vec<DataType>, Vec<Value>)> = vec![("list", lists(), list_values()), ("optional", optionals(), optional_values()), ("struct", structs(), struct_values()), ("union", unions(), union_values())];
            let want = j["family"].as_str();
            for (fam, types, values) in &families {
                if let Some(w) = want { if w != *fam { continue; } }
                for (ia, a) in types.iter().enumerate() { for (ib, b) in types.iter().enumerate() { for (iv, v) in values.iter().enumerate() {
                    if let (Some(x), Some(y), Some(z)) = (j["a"].as_u64(), j["b"].as_u64(), j["v"].as_u64()) { if (x as usize, y as usize, z as usize) != (ia, ib, iv) { continue; } }
                    if a.is_subset_of(b) && a.contains(v) && !b.contains(v) {
                        println!("  A = {}, B = {}, v = {}: A.is_subset_of(B) holds, v is in A and not in B", a, b, v);
                        println!("QX-WITNESS {}", serde_json::json!({"family": fam, "a": ia, "b": ib, "v": iv}));
                        return Ok(false);
                    }
                    // the union contains both sides, the intersection what is in both
                    // (mixed int / float pairs hold only modulo the injections: listed finding C11:cross_variant…, not searched again)
                    if *fam == "struct" || (*fam == "optional" && (ia == 2) != (ib == 2)) { continue; }
                    if let Ok(u) = a.super_union(b) { if (a.contains(v) || b.contains(v)) && !u.contains(v) {
                        println!("  A = {}, B = {}, v = {}: v is in A or B and not in A ∪ B = {}", a, b, v, u);
                        println!("QX-WITNESS {}", serde_json::json!({"family": fam, "a": ia, "b": ib, "v": iv}));
                        return Ok(false);
                    } }
                    if let Ok(m) = a.super_intersection(b) { if a.contains(v) && b.contains(v) && !m.contains(v) {
                        println!("  A = {}, B = {}, v = {}: v is in A and B and not in A ∩ B = {}", a, b, v, m);
                        println!("QX-WITNESS {}", serde_json::json!({"family": fam, "a": ia, "b": ib, "v": iv}));
                        return Ok(false);
                    } }
                } } }
            }
            Ok(true)
        }
        // C14: a VALUES relation is declared UNIQUE only if its literals are pairwise distinct
        "c14_values_case" | "c14_values_search" => {
            use qrlew::relation::Constraint;
            let check = |lits: &[i64]| -> Result<bool, String> {
                let v: Relation = Relation::values().name("v").values(lits.iter().map(|x| Value::integer(*x)).collect::<Vec<_>>()).build();
                let declared = matches!(v.schema()[0].constraint(), Some(Constraint::Unique) | Some(Constraint::PrimaryKey));
                let mut d = lits.to_vec(); d.sort(); d.dedup();
                if declared && d.len() != lits.len() { println!("  VALUES {:?} is declared {:?}", lits, v.schema()[0].constraint()); return Ok(false); }
                Ok(true)
            };
            if name == "c14_values_case" {
                let lits: Vec<i64> = j["values"].as_array().unwrap().iter().map(|x| x.as_i64().unwrap()).collect();
                return check(&lits);
            }
            for n in 1..=4usize { let mut idx = vec![1i64; n]; loop {
                if !check(&idx)? { println!("QX-WITNESS {}", serde_json::json!({"values": idx})); return Ok(false); }
                let mut k = 0; while k < n { if idx[k] < 3 { idx[k] += 1; break; } idx[k] = 1; k += 1; } if k == n { break; }
            } }
            Ok(true)
        }
        // C02: whatever rewrite_with_differential_privacy returns must not read a protected table while accounting for no
        // privacy loss at all (a necessary condition of "no un-noised path from a protected table to the result")
        "c02_case" | "c02_search" => {
            use qrlew::{hierarchy::Hierarchy, expr::Identifier, sql::parse, differential_privacy::DpParameters, synthetic_data::SyntheticData};
            use std::sync::Arc;
            fn tables(r: &Relation, out: &mut Vec<String>) { if let Relation::Table(t) = r { out.push(t.path().to_string()); } for i in r.inputs() { tables(i, out); } }
            let mk = |name: &str| -> Relation { Relation::table().name(name).schema(vec![("id", DataType::integer_interval(0, 100)), ("a", DataType::float_interval(0., 10.)), ("k", DataType::integer_interval(0, 5))].into_iter().collect::<Schema>()).size(100).build() };
            let rels: Vec<Relation> = vec![mk("t"), mk("u"), mk("p")];   // t, u protected; p public
            let relations: Hierarchy<Arc<Relation>> = rels.iter().map(|t| (Identifier::from(t.name()), Arc::new(t.clone()))).collect();
            let queries = ["SELECT a FROM t", "SELECT a, k FROM t WHERE a > 1", "SELECT sum(a) AS s FROM t", "SELECT k, count(a) AS c FROM t GROUP BY k", "SELECT a FROM p", "SELECT t.a FROM t JOIN p ON t.k = p.k", "SELECT a FROM t UNION SELECT a FROM u", "SELECT a FROM p UNION SELECT a FROM t"];
            // synthetic data: none / for every table / only for `u` and `p` (the entry of `t` is missing)
            let sds: Vec<(&str, Option<Vec<&str>>)> = vec![("none", None), ("full", Some(vec!["t", "u", "p"])), ("partial", Some(vec!["u", "p"]))];
            let one = |q: &str, sd: &Option<Vec<&str>>| -> Option<String> {
                let synthetic = sd.as_ref().map(|names| SyntheticData::new(names.iter().map(|n| (vec![n.to_string()], Identifier::from(vec![format!("synthetic_{}", n)]))).collect::<Hierarchy<Identifier>>()));
                let relation = Relation::try_from(parse(q).ok()?.with(&relations)).ok()?;
                let pu = PrivacyUnit::from(vec![("t", vec![], "id"), ("u", vec![], "id")]);
                let relations2 = relations.clone();
                let res = std::panic::catch_unwind(std::panic::AssertUnwindSafe(|| relation.rewrite_with_differential_privacy(&relations2, synthetic, pu, DpParameters::from_epsilon_delta(1., 1e-3))));
                let rw = match res { Ok(Ok(r)) => r, _ => return None };   // a refusal (Err or panic) is not a leak
                let mut read = vec![]; tables(rw.relation(), &mut read);
                let protected: Vec<&String> = read.iter().filter(|p| p.as_str() == "t" || p.as_str() == "u").collect();
                if !protected.is_empty() && rw.dp_event().is_no_op() { Some(format!("`{}` is rewritten into a relation that reads {:?} while the returned DpEvent is a no-op", q, protected)) } else { None }
            };
            std::panic::set_hook(Box::new(|_| {}));
            if name == "c02_case" {
                let sd = sds.iter().find(|(n, _)| Some(*n) == j["sd"].as_str()).map(|(_, s)| s.clone()).unwrap_or(None);
                let r = one(j["query"].as_str().unwrap(), &sd);
                if let Some(m) = &r { println!("  {}", m); }
                return Ok(r.is_none());
            }
            for (sdn, sd) in &sds { for q in queries {
                if let Some(m) = one(q, sd) { println!("  [synthetic data: {}] {}", sdn, m); println!("QX-WITNESS {}", serde_json::json!({"query": q, "sd": sdn})); return Ok(false); }
            } }
            Ok(true)
        }
        // C15 (second sentence): a bare column name present in two joined relations must be refused (or resolved by USING / NATURAL)
        "c15_sql_case" | "c15_sql_search" => {
            use qrlew::{hierarchy::Hierarchy, sql::parse};
            use std::sync::Arc;
            let mk = |name: &str, last: &str| -> Relation { Relation::table().name(name).path(vec!["schema".to_string(), name.to_string()]).schema(vec![("id", DataType::integer_interval(0, 100)), ("a", DataType::integer_interval(if name == "table_1" { 0 } else { -5 }, if name == "table_1" { 10 } else { 5 })), (last, DataType::float_interval(0., 1.))].into_iter().collect::<Schema>()).size(100).build() };
            let rels = vec![mk("table_1", "b"), mk("table_2", "c")];
            let mut entries: Vec<(Vec<String>, Arc<Relation>)> = rels.iter().map(|t| (vec!["schema".to_string(), t.name().to_string()], Arc::new(t.clone()))).collect();
            // two tables with the same base name in different schemas
            entries.push((vec!["s1".to_string(), "t".to_string()], Arc::new(mk("table_1", "b"))));
            entries.push((vec!["s2".to_string(), "t".to_string()], Arc::new(mk("table_2", "c"))));
            let relations: Hierarchy<Arc<Relation>> = entries.into_iter().collect();
            // every query refers to the bare name `a`, which both inputs of the join have: accepting it is a violation
            let queries = [
                "SELECT a FROM table_1 JOIN table_2 ON table_1.id = table_2.id",
                "SELECT a FROM schema.table_1 JOIN schema.table_2 ON schema.table_1.id = schema.table_2.id",
                "SELECT a FROM table_1 AS x JOIN table_2 AS y ON x.id = y.id",
                "SELECT a FROM (SELECT * FROM table_1 JOIN table_2 ON table_1.id = table_2.id) AS s",
                "SELECT a FROM (SELECT * FROM schema.table_1 JOIN schema.table_2 ON schema.table_1.id = schema.table_2.id) AS s",
                "SELECT a FROM (SELECT * FROM table_1 AS x JOIN table_2 AS y ON x.id = y.id) AS s",
                "WITH s AS (SELECT * FROM schema.table_1 JOIN schema.table_2 ON schema.table_1.id = schema.table_2.id) SELECT a FROM s",
                "SELECT a FROM s1.t JOIN s2.t ON s1.t.id = s2.t.id",
                "SELECT a FROM (SELECT a, b FROM table_1) JOIN table_2 ON b = c",
                "SELECT id FROM table_2 JOIN (SELECT a, id FROM table_1) ON b = c",
                "SELECT t.a FROM s1.t JOIN s2.t ON s1.t.id = s2.t.id",
            ];
            let one = |q: &str| -> Option<String> {
                let relations2 = relations.clone();
                let r = std::panic::catch_unwind(std::panic::AssertUnwindSafe(|| parse(q).ok().and_then(|ast| Relation::try_from(ast.with(&relations2)).ok())));
                match r { Ok(Some(rel)) => Some(format!("`{}` is accepted: schema {}", q, rel.schema())), _ => None }
            };
            std::panic::set_hook(Box::new(|_| {}));
            if name == "c15_sql_case" { let r = one(j["query"].as_str().unwrap()); if let Some(m) = &r { println!("  {}", m); } return Ok(r.is_none()); }
            for q in queries { if let Some(m) = one(q) { println!("  {}", m); println!("QX-WITNESS {}", serde_json::json!({"query": q})); return Ok(false); } }
            Ok(true)
        }
        // C15 (first sentence, scoping): a name bound by WITH resolves to the CTE, also when a table of the context is registered
        // under that same path (one component or schema-qualified); the expected output columns tell which one was bound
        "c15_shadow_case" | "c15_shadow_search" => {
            use qrlew::{hierarchy::Hierarchy, sql::parse};
            use std::sync::Arc;
            let mk = |name: &str, last: &str| -> Relation { Relation::table().name(name).schema(vec![("id", DataType::integer_interval(0, 100)), ("a", DataType::integer_interval(0, 10)), (last, DataType::float_interval(0., 1.))].into_iter().collect::<Schema>()).size(100).build() };
            let entries: Vec<(Vec<String>, Arc<Relation>)> = vec![(vec!["t1".to_string()], Arc::new(mk("t1", "b"))), (vec!["t2".to_string()], Arc::new(mk("t2", "c"))), (vec!["s".to_string(), "u1".to_string()], Arc::new(mk("u1", "b")))];
            let relations: Hierarchy<Arc<Relation>> = entries.into_iter().collect();
            let cases: [(&str, &[&str]); 9] = [
                ("SELECT * FROM t1", &["id", "a", "b"]),
                ("WITH t1 AS (SELECT a AS z FROM t2) SELECT * FROM t1", &["z"]),
                ("WITH u1 AS (SELECT a AS z FROM t2) SELECT * FROM u1", &["z"]),
                ("WITH t1 AS (SELECT c AS z FROM t2) SELECT w.z FROM t1 AS w", &["z"]),
                ("WITH t2 AS (SELECT a AS z FROM t1) SELECT t1.id, t2.z FROM t1 JOIN t2 ON t1.a = t2.z", &["id", "z"]),
                ("WITH v AS (SELECT a AS z FROM t2) SELECT * FROM v", &["z"]),
                // nested scopes: the nearest WITH of a name wins, an outer one is visible where no nearer one exists
                ("WITH x AS (SELECT a AS z FROM t1) SELECT * FROM (WITH x AS (SELECT c AS y FROM t2) SELECT * FROM x) AS s", &["y"]),
                ("WITH x AS (SELECT a AS z FROM t1) SELECT * FROM (WITH w AS (SELECT c AS y FROM t2) SELECT * FROM x) AS s", &["z"]),
                ("WITH x AS (SELECT a AS z FROM t1), y AS (WITH x AS (SELECT c AS q FROM t2) SELECT q FROM x) SELECT x.z, y.q FROM x JOIN y ON x.z = y.q", &["z", "q"]),
            ];
            let one = |k: usize| -> Option<String> {
                let (q, want) = cases[k];
                let relations2 = relations.clone();
                let r = std::panic::catch_unwind(std::panic::AssertUnwindSafe(|| parse(q).ok().and_then(|ast| Relation::try_from(ast.with(&relations2)).ok())));
                match r { Ok(Some(rel)) => { let got: Vec<String> = rel.schema().iter().map(|f| f.name().to_string()).collect();
                        if got.iter().map(|s| s.as_str()).collect::<Vec<_>>() == want.to_vec() { None } else { Some(format!("`{}` has the columns {:?}: the name bound by WITH did not resolve to the CTE (expected {:?})", q, got, want)) } }
                    _ => None }
            };
            std::panic::set_hook(Box::new(|_| {}));
            if name == "c15_shadow_case" { let r = one(j["shadow"].as_u64().unwrap() as usize); if let Some(m) = &r { println!("  {}", m); } return Ok(r.is_none()); }
            for k in 0..cases.len() { if let Some(m) = one(k) { println!("  {}", m); println!("QX-WITNESS {}", serde_json::json!({"shadow": k})); return Ok(false); } }
            Ok(true)
        }
        // C15: all oracles (Hierarchy lookups, SQL name resolution, CTE scoping)
        "c15_any_search" => { if !run("c15_lookup_search", j)? { return Ok(false); } if !run("c15_sql_search", j)? { return Ok(false); } run("c15_shadow_search", j) }
        "c15_any_case" => { if j.get("query").is_some() { run("c15_sql_case", j) } else if j.get("shadow").is_some() { run("c15_shadow_case", j) } else { run("c15_lookup_case", j) } }
        // C06 / C07: the declared type of COUNT / SUM in a grouped Reduce must contain the per-group values
        "c07_grouped_count_type" => {
            use qrlew::{hierarchy::Hierarchy, expr::Identifier, sql::parse, data_type::DataTyped};
            use std::sync::Arc;
            let t: Relation = Relation::table().name("t").schema(vec![("g", DataType::integer_interval(0, 3)), ("b", DataType::integer_interval(0, 10))].into_iter().collect::<Schema>()).size(100).build();
            println!("  table size: {}", t.size());
            let relations: Hierarchy<Arc<Relation>> = vec![t].iter().map(|t| (Identifier::from(t.name()), Arc::new(t.clone()))).collect();
            let q = j["query"].as_str().unwrap_or("SELECT g, count(b) AS c FROM t GROUP BY g");
            let rel = Relation::try_from(parse(q).map_err(|e| e.to_string())?.with(&relations)).map_err(|e| e.to_string())?;
            let field = rel.schema().field("c").map_err(|e| e.to_string())?.clone();
            let v = i(j, "value");
            println!("  {}: c is declared {}; a group of {} rows gives c = {}", q, field.data_type(), v, v);
            Ok(field.data_type().contains(&Value::integer(v)))
        }
        // C05: the privacy-unit-preserving rewriting of a query with LIMIT keeps the LIMIT on the tracked relation: which rows of a
        // unit survive then depends on the rows of the other units
        "c05_tracked_map_limit" => {
            use qrlew::{hierarchy::Hierarchy, expr::Identifier, sql::parse, privacy_unit_tracking::Strategy};
            use std::sync::Arc;
            let t: Relation = Relation::table().name("t").schema(vec![("id", DataType::integer_interval(0, 100)), ("a", DataType::float_interval(0., 10.))].into_iter().collect::<Schema>()).size(100).build();
            let relations: Hierarchy<Arc<Relation>> = vec![t].iter().map(|t| (Identifier::from(t.name()), Arc::new(t.clone()))).collect();
            let q = j["query"].as_str().unwrap_or("SELECT a FROM t LIMIT 10");
            let relation = Relation::try_from(parse(q).map_err(|e| e.to_string())?.with(&relations)).map_err(|e| e.to_string())?;
            let strategy = if j["strategy"].as_str() == Some("soft") { Strategy::Soft } else { Strategy::Hard };
            let rw = relation.rewrite_as_privacy_unit_preserving(&relations, None, PrivacyUnit::from(vec![("t", vec![], "id")]), qrlew::differential_privacy::DpParameters::from_epsilon_delta(1., 1e-3), Some(strategy)).map_err(|e| e.to_string())?;
            fn walk(r: &Relation, found: &mut bool) { if let Relation::Map(m) = r { if m.limit().is_some() || m.offset().is_some() { *found = true; } } for i in r.inputs() { walk(i, found); } }
            let mut found = false; walk(rw.relation(), &mut found);
            println!("  `{}` rewritten as privacy-unit preserving: {}", q, qrlew::ast::Query::from(rw.relation()).to_string().chars().take(400).collect::<String>());
            println!("  the tracked relation carries a LIMIT / OFFSET: {}", found);
            Ok(!found)
        }
        // C05: a RIGHT / FULL OUTER join of two tracked relations takes the unit id from the left side only: unmatched right rows get NULL
        "c05_tracked_outer_join_unit" => {
            use qrlew::{hierarchy::Hierarchy, expr::Identifier, sql::parse, privacy_unit_tracking::Strategy, relation::JoinOperator};
            use std::sync::Arc;
            let mk = |n: &str| -> Relation { Relation::table().name(n).schema(vec![("id", DataType::integer_interval(0, 100)), ("k", DataType::integer_interval(0, 5)), ("a", DataType::float_interval(0., 10.))].into_iter().collect::<Schema>()).size(100).build() };
            let relations: Hierarchy<Arc<Relation>> = vec![mk("t"), mk("u")].iter().map(|t| (Identifier::from(t.name()), Arc::new(t.clone()))).collect();
            let kind = j["join"].as_str().unwrap_or("RIGHT");
            let q = format!("SELECT t.a AS ta, u.a AS ua FROM t {} JOIN u ON t.id = u.id", kind);
            let relation = Relation::try_from(parse(&q).map_err(|e| e.to_string())?.with(&relations)).map_err(|e| e.to_string())?;
            let rw = relation.rewrite_as_privacy_unit_preserving(&relations, None, PrivacyUnit::from(vec![("t", vec![], "id"), ("u", vec![], "id")]), qrlew::differential_privacy::DpParameters::from_epsilon_delta(1., 1e-3), Some(Strategy::Hard)).map_err(|e| e.to_string())?;
            // find the Map directly above the tracked Join and look at the expression of its unit column
            fn walk(r: &Relation, out: &mut Vec<(String, String)>) {
                if let Relation::Map(m) = r { if let Relation::Join(jn) = m.input() {
                    let preserved_right = matches!(jn.operator(), JoinOperator::RightOuter(_) | JoinOperator::FullOuter(_));
                    if preserved_right { for (f, e) in m.schema().iter().zip(m.projection().iter()) { if f.name() == PrivacyUnit::privacy_unit() { out.push((jn.operator().to_string(), e.to_string())); } } }
                } }
                for i in r.inputs() { walk(i, out); }
            }
            let mut found = vec![]; walk(rw.relation(), &mut found);
            let mut ok = true;
            for (op, e) in &found { println!("  tracked {} : unit id := {}", op.chars().take(80).collect::<String>(), e); if !e.to_uppercase().contains("COALESCE") && !e.contains("_RIGHT_PRIVACY_UNIT_") { ok = false; } }
            println!("  query: {}", q);
            Ok(ok)
        }
        // C06: CASE WHEN c THEN a ELSE b with a nullable condition: a NULL condition takes the ELSE branch
        "c06_case_null_condition" => {
            let dt = DataType::structured([("x", DataType::optional(DataType::integer_interval(1, 10)))]);
            let e = Expr::case(Expr::gt(Expr::col("x"), Expr::val(0)), Expr::val(1), Expr::val(2));
            let img = e.super_image(&dt).map_err(|e| e.to_string())?;
            println!("  type of {} over {}: {}; with x NULL the SQL value is 2 (ELSE branch)", e, dt, img);
            Ok(img.contains(&Value::integer(2)) || img.contains(&Value::some(Value::integer(2))))
        }
        // C03: an infinite epsilon gives zero noise; the returned event must not claim that nothing was spent
        "c03_infinite_epsilon" => {
            use qrlew::{hierarchy::Hierarchy, expr::Identifier, sql::parse, differential_privacy::DpParameters};
            use std::sync::Arc;
            let t: Relation = Relation::table().name("t").schema(vec![("id", DataType::integer_interval(0, 100)), ("a", DataType::float_interval(0., 10.))].into_iter().collect::<Schema>()).size(100).build();
            let relations: Hierarchy<Arc<Relation>> = vec![t].iter().map(|t| (Identifier::from(t.name()), Arc::new(t.clone()))).collect();
            let eps = match j["epsilon"].as_str() { Some("inf") => f64::INFINITY, _ => j["epsilon"].as_f64().unwrap_or(1.0) };
            let relation = Relation::try_from(parse("SELECT sum(a) AS s FROM t").map_err(|e| e.to_string())?.with(&relations)).map_err(|e| e.to_string())?;
            let rw = relation.rewrite_with_differential_privacy(&relations, None, PrivacyUnit::from(vec![("t", vec![], "id")]), DpParameters::from_epsilon_delta(eps, 1e-3)).map_err(|e| e.to_string())?;
            println!("  epsilon = {}: returned event {}", eps, rw.dp_event());
            Ok(!rw.dp_event().is_no_op())
        }
        // C12: the converted value must lie in the converted type (union -> union lifting)
        "c12_union_value_in_image" => {
            use qrlew::data_type::injection::{self, Injection as _};
            use qrlew::data_type::{Union, value};
            let dom = Union::from_field("0", DataType::integer_interval(0, 10));
            let co = Union::from_field("0", DataType::float());
            let inj = injection::From(dom.clone()).into(co.clone()).map_err(|e| e.to_string())?;
            let img = inj.super_image(&dom).map_err(|e| e.to_string())?;
            let v = value::Union::from_field("0", Value::integer(1));
            let w = inj.value(&v).map_err(|e| e.to_string())?;
            println!("  {} into {}: image of the type {}, value {} converts to {}", dom, co, img, v, w);
            Ok(img.contains(&w))
        }
        // C11: the approximate union of two array types must contain the values of both
        "c11_array_union" => {
            let a = DataType::array(DataType::integer_interval(0, 10), &[2]);
            let b = DataType::array(DataType::integer_interval(0, 10), &[3]);
            let u = a.super_union(&b).map_err(|e| e.to_string())?;
            let v = Value::array(vec![Value::integer(1), Value::integer(2), Value::integer(3)], [3usize]);
            println!("  {} union {} = {}; {} in B: {}, in the union: {}", a, b, u, v, b.contains(&v), u.contains(&v));
            Ok(!(b.contains(&v) && !u.contains(&v)))
        }
        // C11: a float type reaching 2^63 is not a subset of the integers (2^63 is not an i64)
        "c11_float_2p63_subset_integer" => {
            let f2 = DataType::float_value(9223372036854775808.0);
            let sub = f2.is_subset_of(&DataType::integer());
            println!("  {} is_subset_of int: {}", f2, sub);
            Ok(!sub)
        }
        // C18: a zero budget must give an Err, not a panic
        "c18_zero_budget" => {
            use qrlew::{hierarchy::Hierarchy, expr::Identifier, sql::parse, differential_privacy::DpParameters};
            use std::sync::Arc;
            let t: Relation = Relation::table().name("t").schema(vec![("id", DataType::integer_interval(0, 100)), ("k", DataType::integer()), ("a", DataType::float_interval(0., 10.))].into_iter().collect::<Schema>()).size(100).build();
            let relations: Hierarchy<Arc<Relation>> = vec![t].iter().map(|t| (Identifier::from(t.name()), Arc::new(t.clone()))).collect();
            let relation = Relation::try_from(parse(j["query"].as_str().unwrap_or("SELECT k, sum(a) AS s FROM t GROUP BY k")).map_err(|e| e.to_string())?.with(&relations)).map_err(|e| e.to_string())?;
            let r = relation.rewrite_with_differential_privacy(&relations, None, PrivacyUnit::from(vec![("t", vec![], "id")]), DpParameters::from_epsilon_delta(f(j, "epsilon"), f(j, "delta")));
            println!("  epsilon = {}, delta = {}: {:?}", f(j, "epsilon"), f(j, "delta"), r.as_ref().map(|x| x.dp_event().to_string()).map_err(|e| e.to_string()));
            Ok(true)
        }
        // C10: narrowing a struct type by a predicate keeps every row that satisfies the predicate (rows on an integer grid,
        // predicate evaluated by the library's own Expr::value; a row whose evaluation fails is skipped)
        "c10_case" | "c10_search" => {
            let types: Vec<(&str, DataType)> = vec![
                ("ints", DataType::structured([("a", DataType::integer_interval(0, 6)), ("b", DataType::integer_interval(-3, 3))])),
                ("opts", DataType::structured([("a", DataType::optional(DataType::integer_interval(0, 6))), ("b", DataType::optional(DataType::integer_interval(-3, 3)))])),
                ("mixed", DataType::structured([("a", DataType::float_interval(0., 6.)), ("b", DataType::integer_interval(-3, 3))])),
            ];
            let col = |n: &str| Expr::col(n);
            let preds: Vec<Expr> = vec![
                Expr::gt(col("a"), col("b")), Expr::lt(col("a"), col("b")), Expr::gt_eq(col("a"), Expr::val(2)), Expr::lt_eq(col("b"), Expr::val(0)), Expr::eq(col("a"), col("b")),
                Expr::and(Expr::gt(col("a"), Expr::val(1)), Expr::lt(col("b"), Expr::val(2))), Expr::or(Expr::gt(col("a"), Expr::val(4)), Expr::lt(col("b"), Expr::val(-1))),
                Expr::or(Expr::gt(col("a"), Expr::val(-10)), Expr::lt(col("b"), Expr::val(-2))), Expr::and(Expr::lt(col("a"), col("b")), Expr::gt(col("b"), Expr::val(0))),
                Expr::in_list(col("a"), Expr::list([1, 3, 5])), Expr::gt(Expr::val(3), col("a")), Expr::lt(Expr::val(0), col("b")),
            ];
            let want = (j["type"].as_str(), j["pred"].as_u64());
            for (tn, t) in &types { for (pi, p) in preds.iter().enumerate() {
                if let (Some(wt), Some(wp)) = want { if wt != *tn || wp as usize != pi { continue; } }
                let narrowed = match std::panic::catch_unwind(std::panic::AssertUnwindSafe(|| t.filter(p))) { Ok(n) => n, Err(_) => continue };
                for a in 0..=6i64 { for b in -3..=3i64 {
                    let av = if *tn == "mixed" { Value::float(a as f64) } else { Value::integer(a) };
                    let row = Value::structured([("a", av.clone()), ("b", Value::integer(b))]);
                    let holds = match std::panic::catch_unwind(std::panic::AssertUnwindSafe(|| p.value(&row))) { Ok(Ok(Value::Boolean(x))) => *x, _ => continue };
                    if !holds { continue; }
                    // a value of an optional column may be represented bare or wrapped: accept any representation
                    // and a number may be carried as an integer or as the equal float (narrowing converts variants)
                    let alts = |n: i64| -> Vec<Value> { vec![Value::integer(n), Value::float(n as f64), Value::some(Value::integer(n)), Value::some(Value::float(n as f64))] };
                    let mut reps: Vec<Value> = vec![];
                    for x in alts(a) { for y in alts(b) { reps.push(Value::structured([("a", x.clone()), ("b", y)])); } }
                    if reps.iter().any(|r| t.contains(r)) && !reps.iter().any(|r| narrowed.contains(r)) {
                        println!("  {} narrowed by {} is {}: the row (a = {}, b = {}) satisfies the predicate and is dropped", t, p, narrowed, a, b);
                        println!("QX-WITNESS {}", serde_json::json!({"type": tn, "pred": pi}));
                        return Ok(false);
                    }
                } }
            } }
            Ok(true)
        }
        // C12: conversions between variants through the public API: the converted value lies in the converted type, distinct
        // values stay distinct, and converting back (when possible) returns the value
        "c12_case" | "c12_search" => {
            let sources: Vec<(DataType, Vec<Value>)> = vec![
                (DataType::boolean(), vec![Value::boolean(false), Value::boolean(true)]),
                (DataType::integer_interval(0, 1), vec![Value::integer(0), Value::integer(1)]),
                (DataType::integer_interval(-3, 12), vec![Value::integer(-3), Value::integer(0), Value::integer(1), Value::integer(7), Value::integer(12)]),
                (DataType::float_values([0., 1., 2., 9223372036854775808.0]), vec![Value::float(0.), Value::float(1.), Value::float(2.), Value::float(9223372036854775808.0)]),
                (DataType::float_interval(0., 3.), vec![Value::float(0.), Value::float(1.), Value::float(2.5)]),
                (DataType::optional(DataType::integer_interval(0, 5)), vec![Value::none(), Value::some(Value::integer(0)), Value::some(Value::integer(3))]),
                (DataType::optional(DataType::float_values([1., 2.5])), vec![Value::none(), Value::some(Value::float(1.)), Value::some(Value::float(2.5))]),
                (DataType::structured([("a", DataType::integer_interval(0, 5)), ("b", DataType::integer_interval(0, 5))]), vec![Value::structured([("a", Value::integer(1)), ("b", Value::integer(2))]), Value::structured([("a", Value::integer(1)), ("b", Value::integer(3))])]),
                (DataType::list(DataType::integer_interval(0, 5), 0, 3), vec![Value::list(vec![]), Value::list(vec![Value::integer(1)]), Value::list(vec![Value::integer(1), Value::integer(2)])]),
                // calendar types: values that differ only below the second, or only by the time of the day
                (DataType::time(), vec![Value::time(chrono::NaiveTime::from_hms_milli_opt(10, 12, 13, 0).unwrap()), Value::time(chrono::NaiveTime::from_hms_milli_opt(10, 12, 13, 250).unwrap()), Value::time(chrono::NaiveTime::from_hms_milli_opt(10, 12, 13, 750).unwrap()), Value::time(chrono::NaiveTime::from_hms_opt(0, 0, 0).unwrap())]),
                (DataType::date(), vec![Value::date(chrono::NaiveDate::from_ymd_opt(2020, 1, 1).unwrap()), Value::date(chrono::NaiveDate::from_ymd_opt(2020, 1, 2).unwrap()), Value::date(chrono::NaiveDate::from_ymd_opt(1999, 12, 31).unwrap())]),
                (DataType::date_time(), vec![Value::date_time(chrono::NaiveDate::from_ymd_opt(2020, 1, 1).unwrap().and_hms_milli_opt(0, 0, 0, 0).unwrap()), Value::date_time(chrono::NaiveDate::from_ymd_opt(2020, 1, 1).unwrap().and_hms_milli_opt(0, 0, 0, 500).unwrap()), Value::date_time(chrono::NaiveDate::from_ymd_opt(2020, 1, 1).unwrap().and_hms_milli_opt(10, 0, 0, 0).unwrap()), Value::date_time(chrono::NaiveDate::from_ymd_opt(2020, 1, 2).unwrap().and_hms_milli_opt(10, 0, 0, 0).unwrap())]),
            ];
            let targets: Vec<DataType> = vec![DataType::boolean(), DataType::integer(), DataType::float(), DataType::text(), DataType::optional(DataType::integer()), DataType::optional(DataType::float()),
                DataType::structured([("a", DataType::float())]), DataType::structured([("a", DataType::float()), ("b", DataType::float())]), DataType::list(DataType::float(), 0, 10), DataType::bytes(), DataType::date(), DataType::date_time()];
            let want = (j["source"].as_u64(), j["target"].as_u64());
            std::panic::set_hook(Box::new(|_| {}));
            for (si, (src, values)) in sources.iter().enumerate() { for (ti, tgt) in targets.iter().enumerate() {
                if let (Some(a), Some(b)) = want { if (a as usize, b as usize) != (si, ti) { continue; } }
                let conv_t = match std::panic::catch_unwind(std::panic::AssertUnwindSafe(|| src.clone().into_data_type(tgt))) { Ok(Ok(t)) => t, _ => continue };
                let mut images: Vec<(Value, Value)> = vec![];
                for v in values {
                    let w = match std::panic::catch_unwind(std::panic::AssertUnwindSafe(|| v.as_data_type(tgt))) { Ok(Ok(w)) => w, _ => continue };
                    let mut bad: Option<String> = None;
                    if !conv_t.contains(&w) { bad = Some(format!("{} (in {}) converts to {}, which is not in the converted type {}", v, src, w, conv_t)); }
                    if let Some((v0, _)) = images.iter().find(|(v0, w0)| *w0 == w && v0 != v) { bad = Some(format!("{} and {} (in {}) both convert to {} as {}", v0, v, src, w, tgt)); }
                    if let Ok(Ok(back)) = std::panic::catch_unwind(std::panic::AssertUnwindSafe(|| w.as_data_type(src))) { if &back != v { bad = bad.or(Some(format!("{} converts to {} as {} and back to {}", v, w, tgt, back))); } }
                    if let Some(m) = bad { println!("  {}", m); println!("QX-WITNESS {}", serde_json::json!({"source": si, "target": ti})); return Ok(false); }
                    images.push((v.clone(), w));
                }
            } }
            Ok(true)
        }
        // C03: every Gaussian noise the rewritten query applies must be matched by a mechanism of the returned event, and a
        // thresholded GROUP BY by an (epsilon, delta) entry (a necessary condition of "privacy loss never under-reported")
        "c03_case" | "c03_search" => {
            use qrlew::{hierarchy::Hierarchy, expr::Identifier, sql::parse, differential_privacy::{DpParameters, DpEvent}};
            use std::sync::Arc;
            fn flat(e: &DpEvent, out: &mut Vec<DpEvent>) { match e { DpEvent::NoOp => {}, DpEvent::Composed { events } => { for x in events { flat(x, out); } }, other => out.push(other.clone()) } }
            let t: Relation = Relation::table().name("t").schema(vec![("id", DataType::integer_interval(0, 100)), ("k", DataType::integer()), ("g", DataType::integer_values([1, 2, 3])), ("x", DataType::float_interval(0., 10.)), ("y", DataType::float_interval(-5., 5.))].into_iter().collect::<Schema>()).size(1000).build();
            let relations: Hierarchy<Arc<Relation>> = vec![t].iter().map(|t| (Identifier::from(t.name()), Arc::new(t.clone()))).collect();
            let queries = [
                "SELECT sum(x) AS s FROM t", "SELECT sum(x) AS s, count(y) AS c, avg(y) AS a FROM t", "SELECT g, sum(x) AS s FROM t GROUP BY g", "SELECT k, sum(x) AS s FROM t GROUP BY k",
                "SELECT sum(x) AS a, sum(DISTINCT x) AS b, count(DISTINCT y) AS c FROM t", "SELECT var(x) AS v, stddev(y) AS d FROM t",
                "WITH s AS (SELECT avg(x) AS ax FROM t) SELECT sum(y - ax) AS z FROM t CROSS JOIN s", "SELECT g, k, count(x) AS c FROM t GROUP BY g, k",
            ];
            let one = |q: &str| -> Option<String> {
                let relation = Relation::try_from(parse(q).ok()?.with(&relations)).ok()?;
                let rel2 = relations.clone();
                let rw = match std::panic::catch_unwind(std::panic::AssertUnwindSafe(|| relation.rewrite_with_differential_privacy(&rel2, None, PrivacyUnit::from(vec![("t", vec![], "id")]), DpParameters::from_epsilon_delta(1., 1e-3)))) { Ok(Ok(r)) => r, _ => return None };
                let sql = qrlew::ast::Query::from(rw.relation()).to_string();
                let noises = sql.matches("(LN(RANDOM())").count();
                let thresholded = sql.contains("_COUNT_DISTINCT_PE_ID_") || sql.contains("_COUNT_DISTINCT_PID_");
                let mut ev = vec![]; flat(rw.dp_event(), &mut ev);
                let gaussians = ev.iter().filter(|e| matches!(e, DpEvent::Gaussian { .. })).count();
                let eds = ev.iter().filter(|e| matches!(e, DpEvent::EpsilonDelta { .. })).count();
                // the thresholding count itself is noised: one of the noise terms belongs to the (epsilon, delta) entry
                let need = noises.saturating_sub(if thresholded { 1 } else { 0 });
                if gaussians < need { return Some(format!("`{}`: {} Gaussian noise terms in the rewritten query ({} for thresholding), {} Gaussian mechanisms in the event {}", q, noises, if thresholded { 1 } else { 0 }, gaussians, rw.dp_event())); }
                if thresholded && eds == 0 { return Some(format!("`{}`: grouping keys are released by tau-thresholding but the event has no (epsilon, delta) entry: {}", q, rw.dp_event())); }
                // second sentence of C03, on one aggregation without grouping key (all of (1, 1e-3) goes to the aggregates, nested
                // aggregations excluded): the n noisy sums must each be calibrated for (epsilon / n, delta / n) — sigma_i / C_i is read
                // from the query: `(SQRT("col")) / (C)` in the clipping stage, `((sigma) * ((SQRT((-2) * (LN(RANDOM` in the noise stage
                if !thresholded && !q.contains("WITH") && !q.contains("GROUP BY") {
                    let mut bounds: Vec<(String, f64)> = vec![];
                    let mut rest = sql.as_str();
                    while let Some(k) = rest.find("(SQRT(\"") { rest = &rest[k + 7..]; if let Some(e) = rest.find("\")) / (") { let col = rest[..e].to_string(); let tail = &rest[e + 7..]; if let Some(c) = tail.find(')') { if let Ok(v) = tail[..c].parse::<f64>() { if !bounds.iter().any(|(n, _)| *n == col) { bounds.push((col, v)); } } } } }
                    // (column, sigma): `(COALESCE("_SUM_<col>", 0)) + ((sigma) * ((SQRT((-2) * (LN(RANDOM`
                    let mut sigmas: Vec<(String, f64)> = vec![];
                    let mut rest = sql.as_str();
                    while let Some(k) = rest.find(") * ((SQRT((-2) * (LN(RANDOM") {
                        let head = &rest[..k];
                        if let Some(b) = head.rfind("((") { if let Ok(v) = head[b + 2..].parse::<f64>() {
                            if let Some(cq) = head[..b].rfind("(COALESCE(\"") { let nm = &head[cq + 11..b]; if let Some(e) = nm.find('"') { sigmas.push((nm[..e].to_string(), v)); } }
                        } }
                        rest = &rest[k + 10..];
                    }
                    let n = sigmas.len() as f64;
                    if n >= 1. && sigmas.len() == noises {
                        let required = (2. * (1.25_f64 / (1e-3 / n)).ln()).sqrt() / (1. / n);
                        for (noised, sg) in sigmas.iter() {
                            // the clipping bound of the column this noise is added to (paired by name: the noisy sum of <col> is `_SUM_<col>`; counts are clipped elsewhere and skipped)
                            if let Some((col, c)) = bounds.iter().find(|(col, _)| *noised == format!("_SUM_{}", col)) {
                                if *c > 0. && sg / c < required * (1. - 1e-9) { return Some(format!("`{}`: {} noisy sums share (1, 0.001) but the noise on {} has sigma / C = {} / {} = {}, below the multiplier {} of (epsilon / {}, delta / {})", q, n, col, sg, c, sg / c, required, n, n)); }
                            }
                        }
                    }
                }
                None
            };
            std::panic::set_hook(Box::new(|_| {}));
            if name == "c03_case" { let r = one(j["query"].as_str().unwrap()); if let Some(m) = &r { println!("  {}", m); } return Ok(r.is_none()); }
            for q in queries {
                // a query the front end cannot build at all (panic or Err) says nothing about accounting
                let r = std::panic::catch_unwind(std::panic::AssertUnwindSafe(|| one(q))).unwrap_or(None);
                if let Some(m) = r { println!("  {}", m); println!("QX-WITNESS {}", serde_json::json!({"query": q})); return Ok(false); }
            }
            Ok(true)
        }
        // C05: all the API-level oracles of the property, one after the other
        "c05_any_search" => {
            if !run("c05_path_search", j)? { return Ok(false); }
            for op in ["inner", "left_outer", "full_outer", "cross"] {
                let w = serde_json::json!({"op": op});
                if !run("c05_tracked_join_equates_units", &w)? { println!("QX-WITNESS {}", w); return Ok(false); }
            }
            for kind in ["INNER", "LEFT", "RIGHT", "FULL"] {
                let w = serde_json::json!({"join": kind});
                if !run("c05_tracked_outer_join_unit", &w)? { println!("QX-WITNESS {}", w); return Ok(false); }
            }
            Ok(true)
        }
        "c05_any_case" => {
            if j.get("steps").is_some() { run("c05_path_hops", j) } else if j.get("join").is_some() { run("c05_tracked_outer_join_unit", j) } else { run("c05_tracked_join_equates_units", j) }
        }
        // C13: the DP entry point succeeds exactly when the selector alone (no elimination) finds a derivation with an acceptable
        // root label, and the applied derivation's score is the best among them (scores of the candidates via the public Score visitor)
        "c13_case" | "c13_search" => {
            use qrlew::{hierarchy::Hierarchy, expr::Identifier, sql::parse, differential_privacy::DpParameters, synthetic_data::SyntheticData, privacy_unit_tracking::Strategy};
            use qrlew::rewriting::{Property, rewriting_rule::{RewritingRulesSelector, RewritingRulesSetter, RewritingRulesEliminator, RelationWithRewritingRule, RelationWithRewritingRules, Score}};
            use qrlew::visitor::Acceptor as _;
            use std::{sync::Arc, ops::Deref};
            // independent reference: plain enumeration of every consistent derivation (one rule per node, the rule's inputs being the
            // labels of the children's rules) — it does not go through the library's eliminator / selector
            fn enumerate<'a>(relation: &'a Relation, node: &RelationWithRewritingRules<'a>) -> Vec<Arc<RelationWithRewritingRule<'a>>> {
                let children: Vec<Vec<Arc<RelationWithRewritingRule<'a>>>> = relation.inputs().into_iter().zip(node.inputs().iter()).map(|(r, n)| enumerate(r, n.deref())).collect();
                let mut combinations: Vec<Vec<Arc<RelationWithRewritingRule<'a>>>> = vec![vec![]];
                for child in children.iter() {
                    combinations = combinations.into_iter().flat_map(|prefix| child.iter().map(move |c| { let mut v = prefix.clone(); v.push(c.clone()); v })).collect();
                }
                let mut result = vec![];
                for combination in combinations { for rule in node.attributes() {
                    if rule.inputs().len() == combination.len() && rule.inputs().iter().zip(combination.iter()).all(|(label, c)| label == c.attributes().output()) {
                        result.push(Arc::new(RelationWithRewritingRule::new(relation, rule.clone(), combination.clone())));
                    }
                } }
                result
            }
            let mk = |name: &str| -> Relation { Relation::table().name(name).schema(vec![("id", DataType::integer_interval(0, 100)), ("k", DataType::integer_interval(0, 5)), ("a", DataType::float_interval(0., 10.))].into_iter().collect::<Schema>()).size(100).build() };
            let relations: Hierarchy<Arc<Relation>> = vec![mk("t"), mk("u"), mk("p")].iter().map(|t| (Identifier::from(t.name()), Arc::new(t.clone()))).collect();
            let queries = ["SELECT a FROM p", "SELECT a FROM t", "SELECT sum(a) AS s FROM t", "SELECT k, count(a) AS c FROM t GROUP BY k", "SELECT t.a FROM t JOIN (SELECT k FROM p) AS q ON t.k = q.k",
                "SELECT count(a) AS c FROM (SELECT a FROM t UNION SELECT a FROM p) AS w", "SELECT t.a FROM t JOIN p ON t.k = p.k", "SELECT sum(t.a) AS s FROM t JOIN u ON t.id = u.id", "SELECT a FROM p UNION SELECT a FROM p",
                "WITH totals AS (SELECT k AS it, SUM(a) AS total FROM t GROUP BY k) SELECT o.k AS item, COUNT(o.a) AS cnt FROM totals AS w JOIN t AS o ON w.it = o.k GROUP BY o.k",
                "WITH totals AS (SELECT k AS it, SUM(a) AS total FROM t GROUP BY k) SELECT o.k AS item, o.a AS a, w.total AS total FROM totals AS w JOIN t AS o ON w.it = o.k",
                "SELECT sum(a) AS s FROM (SELECT a FROM t UNION SELECT a FROM u) AS w",
                "SELECT a FROM t UNION SELECT a FROM p", "SELECT a FROM p UNION SELECT a FROM t", "SELECT a FROM t UNION SELECT a FROM t GROUP BY a", "SELECT a FROM t GROUP BY a UNION SELECT a FROM u",
                "SELECT k, sum(a) AS s FROM t GROUP BY k UNION SELECT k, a FROM p",
                "WITH s AS (SELECT k, count(a) AS c FROM t GROUP BY k) SELECT s1.c AS c FROM s AS s1 JOIN s AS s2 ON s1.k = s2.k", "SELECT a FROM t UNION SELECT a FROM t"];
            let one = |q: &str, with_sd: bool| -> Option<String> {
                let sd = || if with_sd { Some(SyntheticData::new(Hierarchy::from([(vec!["t"], Identifier::from("synthetic_t")), (vec!["u"], Identifier::from("synthetic_u")), (vec!["p"], Identifier::from("synthetic_p"))]))) } else { None };
                let pu = || PrivacyUnit::from(vec![("t", vec![], "id"), ("u", vec![], "id")]);
                let dp = || DpParameters::from_epsilon_delta(1., 1e-3);
                let relation = Relation::try_from(parse(q).ok()?.with(&relations)).ok()?;
                let with_rules = relation.set_rewriting_rules(RewritingRulesSetter::new(&relations, sd(), pu(), dp(), Strategy::Hard));
                let acceptable = |p: &Property| matches!(p, Property::Public | Property::Published | Property::DifferentiallyPrivate | Property::SyntheticData);
                // reference: all consistent derivations with an acceptable root, scored by the library's own Score
                let reference: Vec<f64> = enumerate(&relation, &with_rules).iter().filter(|d| acceptable(d.attributes().output())).map(|d| d.accept(Score)).collect();
                let reference_best = reference.iter().cloned().fold(f64::NEG_INFINITY, f64::max);
                // the score is additive: the weight of the node's label (measured on a childless node with that label) plus the
                // scores of ALL its children — also when two children are the same sub-relation (a CTE joined with itself)
                {
                    use qrlew::rewriting::rewriting_rule::{RewritingRule, Parameters};
                    let weight = |p: &Property| -> f64 { Arc::new(RelationWithRewritingRule::new(&relation, RewritingRule::new(vec![], *p, Parameters::None), vec![])).accept(Score) };
                    fn additive<'a>(d: &RelationWithRewritingRule<'a>, weight: &dyn Fn(&Property) -> f64) -> f64 { d.inputs().iter().fold(weight(d.attributes().output()), |s, c| s + additive(c.deref(), weight)) }
                    for d in enumerate(&relation, &with_rules).iter() {
                        let (lib, sum) = (d.accept(Score), additive(d.deref(), &weight));
                        if (lib - sum).abs() > 1e-9 { return Some(format!("`{}` (synthetic data: {}): a derivation with root {} scores {} but the weights of its nodes add up to {}", q, with_sd, d.attributes().output(), lib, sum)); }
                    }
                }
                // what the compiler searches through (the pipeline of the entry point)
                let eliminated = with_rules.map_rewriting_rules(RewritingRulesEliminator);
                let cands: Vec<f64> = eliminated.select_rewriting_rules(RewritingRulesSelector).iter().filter(|d| acceptable(d.attributes().output())).map(|d| d.accept(Score)).collect();
                let best = cands.iter().cloned().fold(f64::NEG_INFINITY, f64::max);
                let res = relation.rewrite_with_differential_privacy(&relations, sd(), pu(), dp());
                match (&res, reference.is_empty()) {
                    (Ok(_), true) => return Some(format!("`{}` (synthetic data: {}) is rewritten although no consistent derivation has an acceptable root", q, with_sd)),
                    (Err(e), false) => return Some(format!("`{}` (synthetic data: {}): {} consistent derivations with an acceptable root exist (best score {}) but the compiler returns {}", q, with_sd, reference.len(), reference_best, e.to_string().trim())),
                    _ => {}
                }
                if !reference.is_empty() && best != reference_best {
                    return Some(format!("`{}` (synthetic data: {}): the best consistent derivation scores {} but the best one the compiler's search reaches scores {}", q, with_sd, reference_best, best));
                }
                None
            };
            std::panic::set_hook(Box::new(|_| {}));
            if name == "c13_case" && j.get("sd_missing_public").is_some() { return run("c13_search", &serde_json::json!({})); }
            if name == "c13_case" { let r = std::panic::catch_unwind(std::panic::AssertUnwindSafe(|| one(j["query"].as_str().unwrap(), j["sd"].as_bool().unwrap_or(false)))).unwrap_or(None); if let Some(m) = &r { println!("  {}", m); } return Ok(r.is_none()); }
            for with_sd in [false, true] { for q in queries {
                let r = std::panic::catch_unwind(std::panic::AssertUnwindSafe(|| one(q, with_sd))).unwrap_or(None);
                if let Some(m) = r { println!("  {}", m); println!("QX-WITNESS {}", serde_json::json!({"query": q, "sd": with_sd})); return Ok(false); }
            } }
            // synthetic data that covers the protected tables only: a query on the public table has a Public derivation and must compile
            {
                let sd = Some(SyntheticData::new(Hierarchy::from([(vec!["t"], Identifier::from("synthetic_t")), (vec!["u"], Identifier::from("synthetic_u"))])));
                for q in ["SELECT a FROM p", "SELECT sum(t.a) AS s FROM t JOIN p ON t.k = p.k"] {
                    let relation = Relation::try_from(parse(q).map_err(|e| e.to_string())?.with(&relations)).map_err(|e| e.to_string())?;
                    let r = std::panic::catch_unwind(std::panic::AssertUnwindSafe(|| relation.rewrite_with_differential_privacy(&relations, sd.clone(), PrivacyUnit::from(vec![("t", vec![], "id"), ("u", vec![], "id")]), DpParameters::from_epsilon_delta(1., 1e-3)).is_ok()));
                    if !matches!(r, Ok(true)) {
                        println!("  `{}` with synthetic data for t and u only: {}", q, if r.is_err() { "the compiler panics" } else { "no rewriting although the public derivation exists" });
                        println!("QX-WITNESS {}", serde_json::json!({"query": q, "sd_missing_public": true}));
                        return Ok(false);
                    }
                }
            }
            Ok(true)
        }
        // C01: the per-unit clipping norm must be built from partial sums taken per (unit, group) for EVERY grouping column of the
        // query (structural necessary condition read off the rewritten relation)
        "c01_case" | "c01_search" => {
            use qrlew::{hierarchy::Hierarchy, expr::Identifier, sql::parse, differential_privacy::DpParameters};
            use std::sync::Arc;
            let t: Relation = Relation::table().name("t").schema(vec![("id", DataType::integer_interval(0, 100)), ("g", DataType::integer_values([1, 2, 3])), ("h", DataType::integer_values([1, 2])), ("score", DataType::integer_values([-5, 5])), ("x", DataType::float_interval(-10., 10.))].into_iter().collect::<Schema>()).size(1000).build();
            let tu: Relation = Relation::table().name("tu").schema(vec![("id", DataType::integer_interval(0, 100), Some(qrlew::relation::Constraint::Unique)), ("g", DataType::integer_values([1, 2, 3]), None), ("x", DataType::float_interval(-10., 10.), None)].into_iter().collect::<Schema>()).size(1000).build();
            let relations: Hierarchy<Arc<Relation>> = vec![t, tu].iter().map(|t| (Identifier::from(t.name()), Arc::new(t.clone()))).collect();
            let queries: Vec<(&str, usize)> = vec![("SELECT sum(x) AS s FROM tu", 0), ("SELECT g, sum(x) AS s FROM tu GROUP BY g", 1), ("SELECT sum(x) AS s FROM t", 0), ("SELECT g, sum(x) AS s FROM t GROUP BY g", 1), ("SELECT g, h, sum(x) AS s, avg(x) AS a FROM t GROUP BY g, h", 2),
                ("SELECT score, sum(score) AS s FROM t GROUP BY score", 1), ("SELECT g, score, sum(score) AS s FROM t GROUP BY g, score", 2)];
            fn innermost_norm_groups(r: &Relation, out: &mut Vec<usize>) {
                if let Relation::Reduce(red) = r {
                    let has_norm = red.schema().iter().any(|f| f.name().starts_with("_NORM_"));
                    let input_has_norm = red.input().schema().iter().any(|f| f.name().starts_with("_NORM_"));
                    if has_norm && !input_has_norm { out.push(red.group_by().len()); }
                }
                for i in r.inputs() { innermost_norm_groups(i, out); }
            }
            let one = |q: &str, keys: usize| -> Option<String> {
                let relation = Relation::try_from(parse(q).ok()?.with(&relations)).ok()?;
                let rw = relation.rewrite_with_differential_privacy(&relations, None, PrivacyUnit::from(vec![("t", vec![], "id"), ("tu", vec![], "id")]), DpParameters::from_epsilon_delta(1., 1e-3)).ok()?;
                let mut g = vec![]; innermost_norm_groups(rw.relation(), &mut g);
                // the noise is calibrated on a per-unit clipping bound: the clipping stage (per-unit norms) has to be there, whatever
                // the schema declares about the number of rows of a unit
                if g.is_empty() { return Some(format!("`{}`: the rewritten query adds noise but has no per-unit clipping stage (no _NORM_ columns)", q)); }
                for n in g { if n != keys + 1 { return Some(format!("`{}`: the partial sums behind the clipping norm are grouped by {} columns; the query has {} grouping columns plus the privacy unit", q, n, keys)); } }
                // the norm compared with C is the SQUARE ROOT of the per-unit sum of squares (a necessary, syntactic condition: the
                // clipping factor of the generated query divides SQRT(<sum of squares>) by C)
                let sql = qrlew::ast::Query::from(rw.relation()).to_string();
                if !sql.contains("(SQRT(\"") { return Some(format!("`{}`: the clipping stage compares the sum of squares itself, not its square root, with the clipping bound (no SQRT of a column in the rewritten query)", q)); }
                None
            };
            std::panic::set_hook(Box::new(|_| {}));
            if name == "c01_case" { let r = std::panic::catch_unwind(std::panic::AssertUnwindSafe(|| one(j["query"].as_str().unwrap(), j["keys"].as_u64().unwrap() as usize))).unwrap_or(None); if let Some(m) = &r { println!("  {}", m); } return Ok(r.is_none()); }
            for (q, k) in queries {
                let r = std::panic::catch_unwind(std::panic::AssertUnwindSafe(|| one(q, k))).unwrap_or(None);
                if let Some(m) = r { println!("  {}", m); println!("QX-WITNESS {}", serde_json::json!({"query": q, "keys": k})); return Ok(false); }
            }
            Ok(true)
        }
        // C05 / C18: a privacy unit reached through a two-step foreign-key path WITH a weight column must be trackable
        "c05_weighted_path" => {
            use qrlew::{hierarchy::Hierarchy, expr::Identifier, sql::parse, privacy_unit_tracking::Strategy};
            use std::sync::Arc;
            let mk = |n: &str, cols: Vec<(&str, DataType)>| -> Relation { Relation::table().name(n).schema(cols.into_iter().collect::<Schema>()).size(100).build() };
            let items = mk("items", vec![("order_id", DataType::integer_interval(0, 100)), ("price", DataType::float_interval(0., 10.))]);
            let orders = mk("orders", vec![("id", DataType::integer_interval(0, 100)), ("user_id", DataType::integer_interval(0, 100))]);
            let users = mk("users", vec![("id", DataType::integer_interval(0, 100)), ("name", DataType::text()), ("w", DataType::float_interval(0., 1.))]);
            let relations: Hierarchy<Arc<Relation>> = vec![items, orders, users].iter().map(|t| (Identifier::from(t.name()), Arc::new(t.clone()))).collect();
            let weighted = j["weight"].as_bool().unwrap_or(true);
            let pu = if weighted { PrivacyUnit::from(vec![("items", vec![("order_id", "orders", "id"), ("user_id", "users", "id")], "name", "w"), ("orders", vec![("user_id", "users", "id")], "name", "w"), ("users", vec![], "name", "w")]) }
                     else { PrivacyUnit::from(vec![("items", vec![("order_id", "orders", "id"), ("user_id", "users", "id")], "name"), ("orders", vec![("user_id", "users", "id")], "name"), ("users", vec![], "name")]) };
            let relation = Relation::try_from(parse("SELECT price FROM items").map_err(|e| e.to_string())?.with(&relations)).map_err(|e| e.to_string())?;
            let r = relation.rewrite_as_privacy_unit_preserving(&relations, None, pu, qrlew::differential_privacy::DpParameters::from_epsilon_delta(1., 1e-3), Some(Strategy::Hard));
            println!("  weighted = {}: {:?}", weighted, r.as_ref().map(|x| x.relation().schema().to_string()).map_err(|e| e.to_string()));
            Ok(r.is_ok())
        }
        _ => Err(format!("unknown replay `{}`", name)),
    }
}

fn main() {
    let args: Vec<String> = std::env::args().collect();
    let j: J = serde_json::from_str(args.get(2).map(|s| s.as_str()).unwrap_or("{}")).expect("json");
    let name = args[1].clone();
    let r = std::panic::catch_unwind(move || run(&name, &j));
    match r {
        Ok(Ok(true)) => println!("QX-REPLAY holds"),
        Ok(Ok(false)) => println!("QX-REPLAY violated"),
        Ok(Err(e)) => println!("QX-REPLAY error {}", e),
        Err(_) => println!("QX-REPLAY panicked"),
    }
}
