//! Replays concrete witnesses against the real Qrlew code through its public API.
//! usage: qx_replay <name> '<json>'  -> prints `QX-REPLAY violated|holds|panicked <detail>`
use qrlew::data_type::{self, value::{self, Value, Variant as _}, DataType, Variant as _};
use serde_json::Value as J;

fn i(j: &J, k: &str) -> i64 { j[k].as_i64().unwrap_or_else(|| j[k].as_str().unwrap().parse().unwrap()) }

fn run(name: &str, j: &J) -> Result<bool, String> {
    match name {
        // C12: two distinct integers must not convert to the same float
        "c12_int_float_injective" => {
            let (a, b) = (i(j, "a"), i(j, "b"));
            let fa = Value::integer(a).as_data_type(&DataType::float()).map_err(|e| e.to_string())?;
            let fb = Value::integer(b).as_data_type(&DataType::float()).map_err(|e| e.to_string())?;
            println!("  {} -> {}, {} -> {}", a, fa, b, fb);
            Ok(a == b || fa != fb)
        }
        _ => Err(format!("unknown replay `{}`", name)),
    }
}

fn main() {
    let args: Vec<String> = std::env::args().collect();
    let j: J = serde_json::from_str(args.get(2).map(|s| s.as_str()).unwrap_or("{}")).expect("json");
    let name = args[1].clone();
    let r = std::panic::catch_unwind(move || run(&name, &j));
    match r {
        Ok(Ok(true)) => println!("QX-REPLAY holds"),
        Ok(Ok(false)) => println!("QX-REPLAY violated"),
        Ok(Err(e)) => println!("QX-REPLAY error {}", e),
        Err(_) => println!("QX-REPLAY panicked"),
    }
}
